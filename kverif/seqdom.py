"""Symbolic sequences: loop summarisation for the gated value numbering.

A list value is a `Vec(kind="list")` whose items are ordinary values or `Gen` blocks.  A `Gen` stands for the
elements produced by one summarised loop (or comprehension):

    for var in range(lo, hi, step):          # var is None for a single conditional pass
        for (guard, value, splice) in parts:
            if guard:  yield value           # splice: yield from value (value is itself a list)

Loop variables are named canonically by nesting depth (`@i0` outermost), so two programs that build the same
sequence by differently shaped code (a loop with guarded appends, a comprehension, a list that is built first and
filtered afterwards, a helper that returns the inner list) evaluate to structurally equal values.

A `for` loop is summarised only when every variable it carries to the next iteration is

  * an accumulator: a list that is only appended / extended (never read) in the body, or
  * an affine recurrence  x' = x + c  with c invariant (closed form x0 + (var - lo)/step * c), or
  * a temporary that is written before it is read in every iteration,

and when the body has no break / return and no other side effect.  Anything else falls back to the havoc of
`Frame.loop` (never a wrong value: the fallback forgets, it does not guess).
"""

from __future__ import annotations

import ast
from fractions import Fraction
from typing import Any, Dict, List, Optional, Tuple

from . import anf
from .anf import Rat, sym
from .guards import G, TRUE, FALSE, g_and, g_not, g_equiv


class Gen:
    __slots__ = ("depth", "lo", "hi", "step", "parts", "ranged", "_key")

    def __init__(self, depth: int, lo: Optional[Rat], hi: Optional[Rat], step: Optional[Rat], parts, ranged: bool = True):
        self.depth = depth
        self.lo, self.hi, self.step = lo, hi, step
        self.parts = tuple(parts)           # (guard, value, splice)
        self.ranged = ranged                # False: a single conditional pass (no loop variable)
        self._key = None

    @property
    def var(self) -> str:
        return f"@i{self.depth}"

    @property
    def key(self):
        if self._key is None:
            from .gvn import vkey
            rng = (self.depth, self.lo.key, self.hi.key, self.step.key) if self.ranged else None
            self._key = ("gen", rng, tuple((g.key, vkey(v), sp) for g, v, sp in self.parts))
        return self._key

    def __repr__(self):
        body = "; ".join(f"{'*' if sp else ''}{v} if {g}" if g.kind != "true" else f"{'*' if sp else ''}{v}" for g, v, sp in self.parts)
        if not self.ranged:
            return f"<{body}>"
        st = "" if self.step.is_const() == 1 else f" step {self.step}"
        return f"<{body} for {self.var} in [{self.lo}, {self.hi}){st}>"


def g_subst(g: G, mapping: Dict[str, Rat]) -> G:
    from .guards import canon_sign, g_or
    if g.kind in ("true", "false"):
        return g
    if g.kind == "sign":
        return canon_sign(g.a.subst(mapping), g.b)
    if g.kind == "atom":
        txt = repr(g.a)
        if any(n in txt for n in mapping):
            raise NoSummary("an opaque condition depends on a loop variable that has to be shifted")
        return g
    if g.kind == "not":
        return g_not(g_subst(g.a, mapping))
    if g.kind == "and":
        return g_and(*[g_subst(x, mapping) for x in g.a])
    return g_or(*[g_subst(x, mapping) for x in g.a])


def subst_value(v, mapping: Dict[str, Rat]):
    from .gvn import Vec, PW, mk_pw
    if isinstance(v, Rat):
        return v.subst(mapping)
    if isinstance(v, Vec):
        return Vec([subst_value(i, mapping) for i in v.items], v.kind)
    if isinstance(v, PW):
        return mk_pw([(g_subst(g, mapping), subst_value(c, mapping)) for g, c in v.cases])
    if isinstance(v, G):
        return g_subst(v, mapping)
    if isinstance(v, Gen):
        parts = [(g_subst(g, mapping), subst_value(x, mapping), sp) for g, x, sp in v.parts]
        if not v.ranged:
            return Gen(v.depth, None, None, None, parts, ranged=False)
        return mk_gen(v.depth, v.lo.subst(mapping), v.hi.subst(mapping), v.step, parts)
    if mentions(v, list(mapping)):
        raise NoSummary("a value that cannot be re-indexed depends on a loop variable")
    return v


def mk_gen(depth: int, lo: Rat, hi: Rat, step: Rat, parts) -> "Gen":
    """Ranged block in normal form: unit-step ranges start at 0 (`for i in range(1, K): f(i-1, i)` and
    `for j in range(0, K-1): f(j, j+1)` are the same block)."""
    if step.is_const() == 1 and not lo.is_zero():
        v = var_symbol(depth)
        m = {str(v): v.add(lo)}
        parts = [(g_subst(g, m), subst_value(x, m), sp) for g, x, sp in parts]
        lo, hi = Rat.const(0), hi.sub(lo)
    return Gen(depth, lo, hi, step, parts, ranged=True)


def unit_step(g: "Gen") -> "Gen":
    """A stepped block `for v in range(lo, hi, s)` as the unit-step block `for j in range(count)` with v = lo + s*j
    (s >= 1, which range() itself requires for a non-empty ascending block): count = ceil((hi - lo) / s), exact
    when hi - lo - 1 is a multiple of s."""
    if not g.ranged or g.step is None or g.step.is_const() == 1:
        return g
    span = g.hi.sub(g.lo)
    cnt = None
    q = span.sub(Rat.const(1)).div(g.step)
    if q.den == {(): 1} and all(Fraction(c_).denominator == 1 for c_ in q.num.values()):
        cnt = q.add(Rat.const(1))
    if cnt is None:
        cnt = anf.opaque("ceil", span.div(g.step), array=False)
    v = var_symbol(g.depth)
    m = {str(v): g.lo.add(g.step.mul(v))}
    parts = [(g_subst(gd, m), subst_value(x, m), sp) for gd, x, sp in g.parts]
    return Gen(g.depth, Rat.const(0), cnt, Rat.const(1), parts, ranged=True)


def var_symbol(depth: int) -> Rat:
    r = sym(f"@i{depth}")
    anf.declare_integer(r)
    return r


# --------------------------------------------------------------------------
# structural equivalence (guards compared semantically)
# --------------------------------------------------------------------------

def seq_equiv(a, b) -> bool:
    from .gvn import Vec, veq, PW
    if isinstance(a, Gen) and isinstance(b, Gen):
        if a.ranged != b.ranged or len(a.parts) != len(b.parts):
            return False
        if a.ranged and not (a.depth == b.depth and a.lo.equals(b.lo) and a.hi.equals(b.hi) and a.step.equals(b.step)):
            return False
        return all(g_equiv(g1, g2) and s1 == s2 and seq_equiv(v1, v2) for (g1, v1, s1), (g2, v2, s2) in zip(a.parts, b.parts))
    if isinstance(a, Gen) or isinstance(b, Gen):
        return False
    if isinstance(a, Vec) and isinstance(b, Vec):
        ia, ib = flatten(a.items), flatten(b.items)
        return len(ia) == len(ib) and all(seq_equiv(x, y) for x, y in zip(ia, ib))
    return veq(a, b)


def flatten(items) -> list:
    """Normal form of a list's items: guards are pushed inwards (a conditional splice of a known list becomes the
    list's items under that guard), unconditional single passes are inlined, dead parts dropped.  Order is kept."""
    return _norm_items(items, TRUE)


def _plain(g: G, v):
    return v if g.kind == "true" else Gen(0, None, None, None, [(g, v, False)], ranged=False)


def _norm_items(items, g0: G) -> list:
    from .gvn import Vec
    out = []
    for it in items:
        if isinstance(it, Gen) and it.ranged:
            parts = _norm_parts(it.parts, g0)
            if parts:
                out.append(mk_gen(it.depth, it.lo, it.hi, it.step, parts))
        elif isinstance(it, Gen):
            for g, v, sp in it.parts:
                gg = g_and(g0, g)
                if gg.kind == "false":
                    continue
                if sp and isinstance(v, Vec) and v.kind in ("list", "tuple"):
                    out.extend(_norm_items(v.items, gg))
                elif sp:
                    out.append(Gen(0, None, None, None, [(gg, v, True)], ranged=False))
                else:
                    out.append(_plain(gg, v))
        else:
            out.append(_plain(g0, it))
    return out


def _norm_parts(parts, g0: G) -> list:
    from .gvn import Vec
    out = []
    for g, v, sp in parts:
        gg = g_and(g0, g)
        if gg.kind == "false":
            continue
        if not sp:
            out.append((gg, v, False))
        elif isinstance(v, Vec) and v.kind in ("list", "tuple"):
            for it in _norm_items(v.items, gg):
                if isinstance(it, Gen) and not it.ranged:
                    out.extend(it.parts)
                elif isinstance(it, Gen):
                    out.append((TRUE, Vec([it], "list"), True))
                else:
                    out.append((TRUE, it, False))
        else:
            out.append((gg, v, True))
    return out


def mentions(v, names) -> bool:
    """Does any of the symbol names occur in the value (conservatively: also inside opaque keys)?"""
    from .gvn import vkey
    txt = repr(vkey(v)) if not isinstance(v, G) else repr(v.key)
    return any(n in txt for n in names)


# --------------------------------------------------------------------------
# summarisation
# --------------------------------------------------------------------------

class NoSummary(Exception):
    pass


def _acc_names(body, env) -> List[str]:
    from .gvn import Vec
    out = []
    for n in ast.walk(ast.Module(body=list(body), type_ignores=[])):
        if isinstance(n, ast.Call) and isinstance(n.func, ast.Attribute) and n.func.attr in ("append", "extend") and isinstance(n.func.value, ast.Name):
            nm = n.func.value.id
            v = env.get(nm)
            if nm not in out and ((isinstance(v, Vec) and v.kind == "list") or (isinstance(v, Rat) and any(s.endswith("@acc") for s in v.symbols()))):
                out.append(nm)
    return out


def _prealloc_names(frame, body, env) -> List[str]:
    """Float arrays preallocated with np.zeros(N) that the body fills by `A[position] = value`."""
    out = []
    for n in ast.walk(ast.Module(body=list(body), type_ignores=[])):
        if isinstance(n, ast.Assign) and len(n.targets) == 1 and isinstance(n.targets[0], ast.Subscript) and isinstance(n.targets[0].value, ast.Name):
            nm = n.targets[0].value.id
            v = env.get(nm)
            if nm not in out and (frame.fi.qualname, nm) in frame.ev.prealloc and isinstance(v, Rat) and v.is_zero():
                out.append(nm)
    return out


def _stored(body) -> List[str]:
    out = []
    for n in ast.walk(ast.Module(body=list(body), type_ignores=[])):
        if isinstance(n, ast.Name) and isinstance(n.ctx, ast.Store) and n.id not in out:
            out.append(n.id)
    return out


def run_body(frame, body, benv, accs, poison: Dict[str, Rat], stored_names=(), pre=(), pos=None):
    """Evaluate one pass of `body`; returns (events per accumulator, end env).  Raises NoSummary."""
    from .gvn import Frame, Unsupported
    fr = Frame(frame.ev, frame.fi, frame.depth)
    fr.loop_stack = list(frame.loop_stack)
    env = dict(benv)
    try:
        live = fr.block(list(body), env, TRUE)
    except Unsupported as e:
        raise NoSummary(f"body not modelled: {e}")
    if fr.breaks or fr.returns:
        raise NoSummary("break / return in the body")
    if fr.continue_envs:
        raise NoSummary("continue in the body")
    per: Dict[str, list] = {a: [] for a in accs}
    for e in fr.events:
        if e.kind in ("append", "extend") and e.target in per:
            per[e.target].append((e.guard, e.args[0], e.kind == "extend"))
        elif e.kind == "store" and e.target in pre and e.target in per and len(e.args) == 2 and pos is not None \
                and isinstance(e.args[0], Rat) and e.args[0].sub(pos).is_const() is not None and Fraction(e.args[0].sub(pos).is_const()).denominator == 1:
            # A[position + c] = value: the value of slot `position + c` (the offset is checked against the range below)
            per[e.target].append((e.guard, e.args[1], False))
            offsets = frame.ev.__dict__.setdefault("_prealloc_offsets", {}) if hasattr(frame.ev, "__dict__") else {}
            offsets[(frame.fi.qualname, e.target)] = Rat.const(e.args[0].sub(pos).is_const())
        elif e.kind in ("call", "return"):
            continue
        elif e.kind == "aug" and e.target in stored_names:
            continue                # `x += c` on a local: the environment carries the new value
        else:
            raise NoSummary(f"side effect {e.kind} on {e.target}")
    names = [str(p) for p in poison.values()]
    for a, evs in per.items():
        for g, v, _sp in evs:
            if mentions(v, names) or mentions(g, names):
                raise NoSummary("an accumulator is read in the body")
    return per, env, names


def summarise_for(frame, st: ast.For, env, guard: G) -> bool:
    """Try to replace the havoc of a `for` loop by exact values.  Returns False when the loop is not summarisable."""
    from .gvn import Vec, PW, Obj, Event, Unsupported
    ev = frame.ev
    if st.orelse:
        return False
    try:
        return _summarise(frame, st.target, st.iter, st.body, env, guard, st)
    except NoSummary as e:
        ev.summary_log.append((getattr(st, "lineno", 0), str(e)))
        return False


def _summarise(frame, target, iter_node, body, env, guard: G, node) -> bool:
    from .gvn import Vec, PW, Obj, Event, Unsupported, cases_of, veq
    ev = frame.ev
    depth = ev.gen_depth
    accs = _acc_names(body, env)
    pre = [n for n in _prealloc_names(frame, body, env) if n not in accs]
    accs = accs + pre
    stored = _stored(body)
    tnames = [n.id for n in ast.walk(target) if isinstance(n, ast.Name)]
    poison = {a: ev.symbol(a + "@acc") for a in accs}
    carried = [n for n in stored if n in env and n not in accs and n not in tnames]
    rec = {n: ev.symbol(n + "@rec") for n in carried}

    def base_env(extra):
        b = dict(env)
        b.update(poison)
        b.update(rec)
        b.update(extra)
        return b

    try:
        itv = frame.expr(iter_node, env)
    except Unsupported as e:
        raise NoSummary(f"iterable not modelled: {e}")
    seq_domain = isinstance(itv, Vec) and itv.kind == "list" and not (isinstance(iter_node, ast.Call) and isinstance(iter_node.func, ast.Name)
                                                                      and iter_node.func.id in ("range", "enumerate", "zip"))
    results: Dict[str, list] = {a: [] for a in accs}
    after: Dict[str, Any] = {}
    if seq_domain:
        if carried:
            # temporaries only: nothing may be carried from one element to the next
            pass

        def bind_target(val):
            if isinstance(target, ast.Name):
                return {target.id: val}
            if isinstance(target, (ast.Tuple, ast.List)) and isinstance(val, Vec) and len(val.items) == len(target.elts) \
                    and all(isinstance(e_, ast.Name) for e_ in target.elts):
                return {e_.id: c for e_, c in zip(target.elts, val.items)}
            raise NoSummary("loop target does not match the element shape")

        def one(val, ctx_guard: G, d: int):
            old = ev.gen_depth
            ev.gen_depth = d
            try:
                per, end, names = run_body(frame, body, base_env(bind_target(val)), accs, poison, stored)
            finally:
                ev.gen_depth = old
            for n in carried:
                v2 = end.get(n)
                if mentions(v2, [str(rec[n])]):
                    raise NoSummary(f"{n} is carried across elements of a sequence")
            return {a: [(g_and(ctx_guard, g), v, sp) for g, v, sp in evs] for a, evs in per.items()}

        def map_items(items, d: int) -> Dict[str, list]:
            out: Dict[str, list] = {a: [] for a in accs}
            for it in items:
                if isinstance(it, Gen):
                    newparts: Dict[str, list] = {a: [] for a in accs}
                    for g, v, sp in it.parts:
                        if sp:
                            if not (isinstance(v, Vec) and v.kind == "list"):
                                raise NoSummary("spliced part is not a list value")
                            inner = map_items(v.items, (it.depth + 1) if it.ranged else d)
                            for a in accs:
                                if inner[a]:
                                    newparts[a].append((g, Vec(inner[a], "list"), True))
                        else:
                            r = one(v, g, (it.depth + 1) if it.ranged else d)
                            for a in accs:
                                newparts[a].extend(r[a])
                    for a in accs:
                        if newparts[a]:
                            out[a].append(mk_gen(it.depth, it.lo, it.hi, it.step, newparts[a]) if it.ranged
                                          else Gen(it.depth, None, None, None, newparts[a], ranged=False))
                else:
                    r = one(it, TRUE, d)
                    for a in accs:
                        if r[a]:
                            out[a].append(Gen(d, None, None, None, r[a], ranged=False))
            return out
        results = map_items(itv.items, depth)
        for n in carried + tnames + [n for n in stored if n not in env]:
            after[n] = ev.fresh_sym(n + "@after")
    else:
        var = var_symbol(depth)
        step = Rat.const(1)
        if isinstance(iter_node, ast.Call) and isinstance(iter_node.func, ast.Name) and iter_node.func.id == "range" and not iter_node.keywords \
                and isinstance(target, ast.Name) and 1 <= len(iter_node.args) <= 3:
            ra = [frame.expr(a_, env) for a_ in iter_node.args]
            if not all(isinstance(a_, Rat) for a_ in ra):
                raise NoSummary("range bounds are not plain numbers")
            lo, hi = (Rat.const(0), ra[0]) if len(ra) == 1 else (ra[0], ra[1])
            if len(ra) == 3:
                if not (ra[2].is_const() is not None and ra[2].is_const() >= 1):
                    raise NoSummary("range step is not a positive constant")
                step = ra[2]
            bindings = {target.id: var}
        elif _strided_zip(frame, target, iter_node, env) is not None:
            # zip(a[o1::s], a[o2::s], ..): position v = 0, s, 2s, .. visits a[o1+v], a[o2+v], ..; the shortest member ends it
            base_, offs_, step = _strided_zip(frame, target, iter_node, env)
            lo, hi = Rat.const(0), ev.length_of(base_).sub(Rat.const(max(offs_)))
            bindings = {e_.id: anf.opaque("at", base_, Rat.const(o_).add(var), array=False) for e_, o_ in zip(target.elts, offs_)}
        else:
            from .rules.common import bind_loop
            fake = ast.For(target=target, iter=iter_node, body=list(body), orelse=[])
            b = bind_loop(ev, frame, fake, env)
            if b is None:
                raise NoSummary("loop header not recognised")
            idx_atoms = b.idx.atoms()
            if len(idx_atoms) != 1:
                raise NoSummary("loop index is not a plain symbol")
            ren = {idx_atoms[0].name: var}

            def rn(v):
                if isinstance(v, Rat):
                    return v.subst(ren)
                if isinstance(v, Vec):
                    return Vec([rn(i) for i in v.items], v.kind)
                return v
            bindings = {k: rn(v) for k, v in b.bindings.items()}
            lo, hi = b.lo, b.hi

        def attempt(extra):
            old = ev.gen_depth
            ev.gen_depth = depth + 1
            try:
                return run_body(frame, body, base_env(dict(bindings, **extra)), accs, poison, stored, pre, var)
            finally:
                ev.gen_depth = old
        per, end, names = attempt({})
        closed: Dict[str, Any] = {}
        chained: List[str] = []
        incs: Dict[str, Rat] = {}
        delayed: Dict[str, Rat] = {}
        sums: Dict[str, Rat] = {}
        varname = str(var)
        recnames = [str(r_) for r_ in rec.values()]
        for n in carried:
            new = end.get(n)
            if isinstance(new, Rat) and new.equals(rec[n]):
                continue
            if not mentions(new, [str(rec[n])]):
                if mentions(new, recnames):
                    # a chain of delay lines (g = f; f = h: a sliding window): resolved below, once the lines it reads are known
                    chained.append(n)
                    continue
                read_first = any(mentions(v_, [str(rec[n])]) or mentions(g_, [str(rec[n])]) for a_ in accs for g_, v_, _s in per[a_]) \
                    or any(mentions(end.get(m_), [str(rec[n])]) for m_ in carried if m_ != n)
                if read_first:
                    # a delay line: the value read in iteration v is the one written in iteration v - step,
                    # x(v) = F(v - step), provided the value before the loop is F(lo - step)
                    if not isinstance(new, (Rat, Vec)) or not isinstance(env[n], (Rat, Vec)):
                        raise NoSummary(f"{n} is carried from the previous iteration and is not a plain value")
                    prev = subst_value(new, {varname: var.sub(step)})
                    if not veq(env[n], subst_value(new, {varname: lo.sub(step)})):
                        raise NoSummary(f"{n}: the value before the loop is not the one the previous iteration would have left")
                    closed[n] = prev
                    delayed[n] = new
                    continue
                # written before read: a temporary (its value after the loop is the last one written, or the old one)
                after[n] = ev.fresh_sym(n + "@after")
                continue
            if not isinstance(new, Rat) or not isinstance(env[n], Rat):
                raise NoSummary(f"{n} is carried and not a plain affine update")
            c = new.sub(rec[n])
            if mentions(c, recnames + names):
                raise NoSummary(f"{n}: increment depends on carried state")
            if mentions(c, [varname]):
                # a running sum  x' = x + F(var): nothing else may read x inside the loop; afterwards x0 + sum of F
                others = [m_ for m_ in carried if m_ != n and mentions(end.get(m_), [str(rec[n])])]
                read_in_acc = any(mentions(v_, [str(rec[n])]) or mentions(g_, [str(rec[n])]) for a_ in accs for g_, v_, _s in per[a_])
                if others or read_in_acc:
                    raise NoSummary(f"{n}: partial sums are read inside the loop")
                sums[n] = c
                continue
            incs[n] = c
            closed[n] = env[n].add(var.sub(lo).div(step).mul(c))
        progress = True
        while chained and progress:
            progress = False
            for n in list(chained):
                new = end.get(n)
                others = [m_ for m_ in carried if m_ != n and mentions(new, [str(rec[m_])])]
                if not all(m_ in delayed for m_ in others):
                    continue
                # what it holds after iteration v, with the lines it reads written out
                F = subst_value(new, {str(rec[m_]): closed[m_] for m_ in others}) if all(isinstance(closed[m_], Rat) for m_ in others) else _subst_syms(new, {str(rec[m_]): closed[m_] for m_ in others})
                if not isinstance(F, (Rat, Vec)) or not isinstance(env[n], (Rat, Vec)):
                    raise NoSummary(f"{n} is carried from the previous iteration and is not a plain value")
                if not veq(env[n], subst_value(F, {varname: lo.sub(step)})):
                    raise NoSummary(f"{n}: the value before the loop is not the one the previous iteration would have left")
                closed[n] = subst_value(F, {varname: var.sub(step)})
                delayed[n] = F
                chained.remove(n)
                progress = True
        if chained:
            raise NoSummary(f"{chained[0]} depends on another carried variable")
        if closed:
            per, end, names = attempt(closed)
            for n, c in incs.items():
                new = end.get(n)
                if not (isinstance(new, Rat) and new.sub(closed[n]).equals(c)):
                    raise NoSummary(f"{n}: recurrence not confirmed with the closed form")
            for n, F in delayed.items():
                new = end.get(n)
                if not (isinstance(new, (Rat, Vec)) and veq(new, F)):
                    raise NoSummary(f"{n}: delay line not confirmed")
                after[n] = ev.fresh_sym(n + "@after")
            for n in carried:
                if n not in closed and mentions(end.get(n), recnames):
                    raise NoSummary(f"{n} depends on a carried variable")
        # nothing but accumulators / recurrences / temporaries may use the poison
        for a in pre:
            # every slot is written exactly once: one unconditional store per position 0 .. N-1
            off_ = getattr(ev, "_prealloc_offsets", {}).get((frame.fi.qualname, a), Rat.const(0))
            if not (len(per[a]) == 1 and per[a][0][0].kind == "true" and lo.add(off_).is_zero() and step.is_const() == 1
                    and hi.add(off_).equals(ev.prealloc[(frame.fi.qualname, a)])):
                raise NoSummary(f"{a}: the preallocated array is not filled once at every position")
        for a in accs:
            if per[a]:
                results[a] = [mk_gen(depth, lo, hi, step, per[a])]
        for n, c in incs.items():
            after[n] = env[n].add(hi.sub(lo).div(step).mul(c))
            ev.summary_assumptions.add("summarised loops run a non-negative number of iterations (hi >= lo)")
        for n, F in sums.items():
            if closed:
                # the summand was computed before the closed forms were known: re-read it
                new2 = end.get(n)
                F = new2.sub(rec[n]) if isinstance(new2, Rat) else F
            after[n] = env[n].add(_sigma(ev, F, var, lo, hi, step, depth))
        for n in tnames + [n for n in stored if n not in env and n not in tnames]:
            after[n] = ev.fresh_sym(n + "@after")
    # ---- commit ---------------------------------------------------------------------------
    for a in accs:
        items = results[a]
        if guard.kind != "true":
            items = [Gen(depth, None, None, None, [(guard, Vec(items, "list"), True)], ranged=False)] if items else []
        cur = env[a]
        if a in pre:
            if guard.kind != "true" or not items:
                raise NoSummary(f"{a}: conditional fill of a preallocated array")
            env[a] = Vec(flatten(items), "list", arr=True)
            ev.prealloc.pop((frame.fi.qualname, a), None)
        elif isinstance(cur, Vec):
            env[a] = Vec(flatten(list(cur.items) + items), "list")
        elif items:
            frame.events.append(Event(TRUE, "extend", a, (Vec(flatten(items), "list"),), node, frame.havoc_depth))
    for n, v in after.items():
        if guard.kind != "true" and n in env:
            from .gvn import mk_pw
            env[n] = mk_pw([(guard, v), (g_not(guard), env[n])])
        else:
            env[n] = v
    return True


def _subst_syms(v, mapping):
    """Replace plain symbols by values that may be vectors: a point-valued line read as a whole (g = f)."""
    from .gvn import Vec
    if isinstance(v, Rat):
        a = v.atoms()
        if len(a) == 1 and a[0].kind == "sym" and a[0].name in mapping and v.equals(Rat.from_atom(a[0])):
            return mapping[a[0].name]
        return v.subst({k: x for k, x in mapping.items() if isinstance(x, Rat)})
    if isinstance(v, Vec):
        return Vec([_subst_syms(i, mapping) for i in v.items], v.kind)
    return v


def _strided_zip(frame, target, iter_node, env):
    """(array, offsets, step) for `zip(a[o1::s], a[o2::s], ..)` over one flat array with a constant step >= 2."""
    if not (isinstance(iter_node, ast.Call) and isinstance(iter_node.func, ast.Name) and iter_node.func.id == "zip" and not iter_node.keywords
            and len(iter_node.args) >= 2 and isinstance(target, (ast.Tuple, ast.List)) and len(target.elts) == len(iter_node.args)
            and all(isinstance(e_, ast.Name) for e_ in target.elts)
            and all(isinstance(a_, ast.Subscript) and isinstance(a_.slice, ast.Slice) and a_.slice.step is not None for a_ in iter_node.args)):
        return None
    from .gvn import Unsupported
    base, step, offs = None, None, []
    for a_ in iter_node.args:
        try:
            v = frame.expr(a_, env)
        except Unsupported:
            return None
        at_ = v.atoms() if isinstance(v, Rat) else []
        if not (len(at_) == 1 and at_[0].name == "stepslice" and v.equals(Rat.from_atom(at_[0])) and len(at_[0].args) == 4):
            return None
        b_, lo_, hi_, st_ = at_[0].args
        o_ = 0 if lo_.symbols() == {"None"} else lo_.is_const()
        if o_ is None or o_ < 0 or Fraction(o_).denominator != 1 or hi_.symbols() != {"None"} or st_.is_const() is None or st_.is_const() < 2:
            return None
        if base is None:
            base, step = b_, st_
        elif not (base.equals(b_) and step.equals(st_)):
            return None
        offs.append(int(o_))
    if max(offs) >= step.is_const():
        return None
    return base, offs, step


def _sigma(ev, F: Rat, var: Rat, lo: Rat, hi: Rat, step: Rat, depth: int) -> Rat:
    """sum of F(var) for var in range(lo, hi, step).  When var only occurs as the position of element-wise array
    expressions that are read over their whole length, this is the plain array sum (np.sum of the element-wise
    expression); otherwise an opaque sum over a generator block."""
    vname = str(var)
    if step.is_const() == 1 and lo.is_zero():
        mapping_ok = True
        repl = {}
        for at_ in F.all_atoms():
            if at_.kind == "fn" and at_.name == "at" and len(at_.args) == 2 and at_.args[1].equals(var):
                arr = at_.args[0]
                try:
                    ln = ev.length_of(arr)
                except Exception:
                    mapping_ok = False
                    break
                if not ln.equals(hi):
                    mapping_ok = False
                    break
                repl[at_.skey] = arr
        if mapping_ok and repl:
            def conv(r: Rat) -> Rat:
                def conv_poly(p):
                    acc = Rat.const(0)
                    for m, c in p.items():
                        term = Rat.const(c)
                        for a_, e_ in m:
                            if a_.skey in repl:
                                base = repl[a_.skey]
                            elif a_.kind == "fn" and a_.args:
                                base = anf.apply_fn(a_.name, tuple(conv(x) for x in a_.args), a_.array or any(conv(x).is_array() for x in a_.args), a_.extra)
                            else:
                                base = Rat.from_atom(a_)
                            term = term.mul(base.pow(e_))
                        acc = acc.add(term)
                    return acc
                return conv_poly(r.num).div(conv_poly(r.den))
            G_ = conv(F)
            if vname not in G_.symbols():
                return anf.f_sum(G_, hi)
    g = mk_gen(depth, lo, hi, step, [(TRUE, F, False)])
    return anf.opaque("sigma", ev.to_rat(g), array=False)


def comprehension(frame, e, env):
    """[elt for v in it if c] / generator expression  ->  list value with one Gen block."""
    from .gvn import Vec
    if len(e.generators) != 1 or e.generators[0].is_async:
        raise NoSummary("nested comprehension")
    gen = e.generators[0]
    ev = frame.ev
    acc = "@comp"
    test = None
    for c in gen.ifs:
        test = c if test is None else ast.BoolOp(op=ast.And(), values=[test, c])
    call = ast.Expr(value=ast.Call(func=ast.Attribute(value=ast.Name(id=acc, ctx=ast.Load()), attr="append", ctx=ast.Load()), args=[e.elt], keywords=[]))
    body: list = [call] if test is None else [ast.If(test=test, body=[call], orelse=[])]
    from .model import keep
    for b_ in body:
        ast.copy_location(b_, e)
        ast.fix_missing_locations(b_)
        keep(b_)
        for sub in ast.walk(b_):
            # scope: the synthetic statements live where the comprehension lives
            if id(sub) not in frame.mod.node_scope:
                frame.mod.node_scope[id(sub)] = frame.mod.node_scope.get(id(e), frame.fi.scope)
    env2 = dict(env)
    env2[acc] = Vec([], "list")
    if not _summarise(frame, gen.target, gen.iter, body, env2, TRUE, e):
        raise NoSummary("comprehension not summarised")
    return env2[acc]
