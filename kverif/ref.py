"""Reference formulas: a tiny expression language (Python syntax) evaluated
directly into the normal form, independently of the numpy model used to
abstract the package's code.

    Sum(e)  sqrt(e)  abs(e)  log(e)  max(a, b, ...)  min(a, b, ...)  at(x, i)
    names are looked up in the environment (symbols or pre-built values)
"""

from __future__ import annotations

import ast
from fractions import Fraction
from typing import Any, Dict

from . import anf
from .anf import Rat


class RefError(Exception):
    pass


def ref(text: str, env: Dict[str, Any], length: Rat = None) -> Rat:
    tree = ast.parse(text.strip(), mode="eval").body
    if length is None:
        length = anf.sym("N")

    def ev(n) -> Rat:
        if isinstance(n, ast.Constant):
            if isinstance(n.value, bool) or not isinstance(n.value, (int, float)):
                raise RefError(f"constant {n.value!r}")
            return Rat.const(Fraction(n.value))
        if isinstance(n, ast.Name):
            if n.id == "N":
                return length
            if n.id not in env:
                raise RefError(f"unknown name {n.id}")
            v = env[n.id]
            if not isinstance(v, Rat):
                raise RefError(f"{n.id} is not numeric")
            return v
        if isinstance(n, ast.BinOp):
            a, b = ev(n.left), ev(n.right)
            if isinstance(n.op, ast.Add):
                return a.add(b)
            if isinstance(n.op, ast.Sub):
                return a.sub(b)
            if isinstance(n.op, ast.Mult):
                return a.mul(b)
            if isinstance(n.op, ast.Div):
                return a.div(b)
            if isinstance(n.op, ast.Pow):
                return anf.f_pow(a, b)
            raise RefError(f"operator {type(n.op).__name__}")
        if isinstance(n, ast.UnaryOp) and isinstance(n.op, ast.USub):
            return ev(n.operand).neg()
        if isinstance(n, ast.Call) and isinstance(n.func, ast.Name):
            f = n.func.id
            args = [ev(a) for a in n.args]
            if f == "Sum":
                return anf.f_sum(args[0], length)
            if f == "sqrt":
                return anf.f_sqrt(args[0])
            if f == "abs":
                return anf.f_abs(args[0])
            if f == "log":
                return anf.f_log(args[0])
            if f in ("max", "min"):
                return anf.f_minmax(f, args)
            if f == "at":
                return anf.opaque("at", args[0], args[1], array=False)
            if f in env and callable(env[f]):
                return env[f](*args)
            raise RefError(f"unknown function {f}")
        raise RefError(f"syntax {type(n).__name__}")
    return ev(tree)
