"""E5 -- guards and comparators.

A numeric comparison ``a OP b`` is normalised to *the set of signs of (a - b)
under which it is true* -- a subset of {-1, 0, +1}.  ``a >= b`` is {0, +1},
``not (a < b)`` is {0, +1}, ``b <= a`` is {0, +1}: all the same fact.  Rules
carry accept-sets of sign-sets.  Non-numeric tests are opaque boolean atoms.

Guards are small boolean formulas over such facts; equivalence, implication,
disjointness and exhaustiveness are decided by enumerating the (finite) sign /
truth assignments of the facts involved.
"""

from __future__ import annotations

import itertools
from typing import Dict, FrozenSet, Iterable, List, Optional, Sequence, Tuple

from .anf import Rat, p_lead

NEG, ZERO, POS = -1, 0, 1
ALL_SIGNS = frozenset((NEG, ZERO, POS))

OPS = {
    "<": frozenset((NEG,)), "<=": frozenset((NEG, ZERO)), "==": frozenset((ZERO,)),
    "!=": frozenset((NEG, POS)), ">": frozenset((POS,)), ">=": frozenset((ZERO, POS)),
}
OP_OF_SIGNS = {v: k for k, v in OPS.items()}


class G:
    """Boolean formula.  kind: true | false | sign | atom | not | and | or"""
    __slots__ = ("kind", "a", "b", "key", "label")

    def __init__(self, kind, a=None, b=None):
        self.kind = kind
        self.a = a
        self.b = b
        self.label = b if kind == "atom" else None
        if kind in ("true", "false"):
            self.key = (kind,)
        elif kind == "sign":
            self.key = ("sign", a.key, tuple(sorted(b)))
        elif kind == "atom":
            self.key = ("atom", a)
        elif kind == "not":
            self.key = ("not", a.key)
        else:
            self.key = (kind, tuple(sorted((x.key for x in a), key=hash)))

    def __hash__(self):
        return hash(self.key)

    def __eq__(self, other):
        return isinstance(other, G) and self.key == other.key

    def __repr__(self):
        if self.kind in ("true", "false"):
            return self.kind
        if self.kind == "sign":
            op = OP_OF_SIGNS.get(self.b, f"sign in {sorted(self.b)}")
            return f"({self.a} {op} 0)"
        if self.kind == "atom":
            if self.label:
                return f"[{self.label}]"
            txt = str(self.a if not isinstance(self.a, tuple) else ' '.join(map(str, self.a)))
            return f"[{txt[:80]}]"
        if self.kind == "not":
            return f"not {self.a}"
        j = " and " if self.kind == "and" else " or "
        return "(" + j.join(map(repr, self.a)) + ")"


TRUE = G("true")
FALSE = G("false")


def canon_sign(r: Rat, signs: FrozenSet[int]) -> G:
    """sign(r) in signs, with r made sign-canonical (leading coefficient of the
    numerator positive)."""
    c = r.is_const()
    if c is not None:
        s = (c > 0) - (c < 0)
        return TRUE if s in signs else FALSE
    if not signs:
        return FALSE
    if signs == ALL_SIGNS:
        return TRUE
    _m, lc = p_lead(r.num)
    if lc < 0:
        r = r.neg()
        signs = frozenset(-s for s in signs)
    return G("sign", r, frozenset(signs))


def compare(op: str, a: Rat, b: Rat) -> G:
    return canon_sign(a.sub(b), OPS[op])


def atom(key, label=None) -> G:
    return G("atom", key, label)


def g_not(g: G) -> G:
    if g.kind == "true":
        return FALSE
    if g.kind == "false":
        return TRUE
    if g.kind == "not":
        return g.a
    if g.kind == "sign":
        return canon_sign(g.a, ALL_SIGNS - g.b)
    if g.kind == "and":
        return g_or(*[g_not(x) for x in g.a])
    if g.kind == "or":
        return g_and(*[g_not(x) for x in g.a])
    return G("not", g)


def _flatten(kind: str, gs: Iterable[G]) -> List[G]:
    out: List[G] = []
    for g in gs:
        if g.kind == kind:
            out.extend(g.a)
        else:
            out.append(g)
    return out


def g_and(*gs: G) -> G:
    items = _flatten("and", gs)
    if any(x.kind == "false" for x in items):
        return FALSE
    items = [x for x in items if x.kind != "true"]
    # merge sign facts on the same quantity
    signs: Dict[tuple, Tuple[Rat, FrozenSet[int]]] = {}
    rest: Dict[tuple, G] = {}
    for x in items:
        if x.kind == "sign":
            k = x.a.key
            if k in signs:
                signs[k] = (x.a, signs[k][1] & x.b)
            else:
                signs[k] = (x.a, x.b)
        else:
            rest[x.key] = x
    out: List[G] = []
    for r, s in signs.values():
        if not s:
            return FALSE
        if s != ALL_SIGNS:
            out.append(G("sign", r, s))
    for x in rest.values():
        if g_not(x).key in rest:
            return FALSE
        out.append(x)
    if not out:
        return TRUE
    if len(out) == 1:
        return out[0]
    return G("and", tuple(out))


def g_or(*gs: G) -> G:
    items = _flatten("or", gs)
    if any(x.kind == "true" for x in items):
        return TRUE
    items = [x for x in items if x.kind != "false"]
    signs: Dict[tuple, Tuple[Rat, FrozenSet[int]]] = {}
    rest: Dict[tuple, G] = {}
    for x in items:
        if x.kind == "sign":
            k = x.a.key
            if k in signs:
                signs[k] = (x.a, signs[k][1] | x.b)
            else:
                signs[k] = (x.a, x.b)
        else:
            rest[x.key] = x
    out: List[G] = []
    for r, s in signs.values():
        if s == ALL_SIGNS:
            return TRUE
        out.append(G("sign", r, s))
    for x in rest.values():
        if g_not(x).key in rest:
            return TRUE
        out.append(x)
    if not out:
        return FALSE
    if len(out) == 1:
        return out[0]
    return G("or", tuple(out))


# --------------------------------------------------------------------------
# finite decision by enumeration
# --------------------------------------------------------------------------

def g_vars(g: G, acc=None) -> Dict[tuple, Tuple[str, object]]:
    if acc is None:
        acc = {}
    if g.kind == "sign":
        acc[("s", g.a.key)] = ("sign", g.a)
    elif g.kind == "atom":
        acc[("a", g.key)] = ("atom", g.a)
    elif g.kind == "not":
        g_vars(g.a, acc)
    elif g.kind in ("and", "or"):
        for x in g.a:
            g_vars(x, acc)
    return acc


def g_eval(g: G, asg: Dict[tuple, object]) -> bool:
    if g.kind == "true":
        return True
    if g.kind == "false":
        return False
    if g.kind == "sign":
        return asg[("s", g.a.key)] in g.b
    if g.kind == "atom":
        return bool(asg[("a", g.key)])
    if g.kind == "not":
        return not g_eval(g.a, asg)
    if g.kind == "and":
        return all(g_eval(x, asg) for x in g.a)
    return any(g_eval(x, asg) for x in g.a)


class TooManyFacts(Exception):
    pass


def _difference_groups(keys, vs):
    """Group the sign facts whose expressions differ by a constant: e + c_1, e + c_2, ...

    The members of a group are not independent: the position of e relative to the thresholds -c_i
    fixes every sign at once.  For an integer-valued e (anf.integer_valued) the open interval between
    two consecutive integer thresholds that are 1 apart contains no value at all, which is what makes
    `len(pt) < 3` and `len(pt) <= 2` the same fact."""
    from .anf import integer_valued
    groups: List[list] = []          # [base Rat, integer?, [(key, offset Fraction)]]
    for k in keys:
        if vs[k][0] != "sign":
            continue
        e = vs[k][1]
        for grp in groups:
            c = e.sub(grp[0]).is_const()
            if c is not None:
                grp[2].append((k, c))
                break
        else:
            groups.append([e, integer_valued(e), [(k, 0)]])
    # a member that cannot be negative (a length, an absolute value, a sum of such) bounds the base from below
    for grp in groups:
        lows = [-c for k, c in grp[2] if not vs[k][1].is_array() and vs[k][1].is_nonneg()]
        grp.append(max(lows) if lows else None)
    return groups


def _group_rows(grp):
    """All consistent sign vectors of one difference group, as dicts key -> sign."""
    base, integral, members, low = grp
    if len(members) == 1:
        k = members[0][0]
        return [{k: NEG}, {k: ZERO}, {k: POS}] if low is None else [{k: ZERO}, {k: POS}]
    ths = sorted({-c for _k, c in members} | ({low} if low is not None else set()))
    # sample points: one per threshold, one per non-empty open interval
    pts = [ths[0] - 1]
    for a, b in zip(ths, ths[1:]):
        pts.append(a)
        all_int = all(getattr(t, "denominator", 1) == 1 for t in (a, b))
        if not (integral and all_int and b - a <= 1):
            pts.append((a + b) / 2 if not (integral and all_int) else a + 1)
    pts.append(ths[-1])
    pts.append(ths[-1] + 1)
    rows = []
    for x in pts:
        if low is not None and x < low:
            continue
        row = {}
        for k, c in members:
            v = x + c
            row[k] = POS if v > 0 else (NEG if v < 0 else ZERO)
        rows.append(row)
    return rows


def assignments(gs: Sequence[G], limit: int = 200000):
    vs: Dict[tuple, Tuple[str, object]] = {}
    for g in gs:
        g_vars(g, vs)
    keys = list(vs)
    doms = [_group_rows(grp) for grp in _difference_groups(keys, vs)]
    doms += [[{k: False}, {k: True}] for k in keys if vs[k][0] != "sign"]
    total = 1
    for d in doms:
        total *= len(d)
    if total > limit:
        raise TooManyFacts(f"{len(keys)} facts -> {total} assignments")
    for combo in itertools.product(*doms):
        asg = {}
        for part in combo:
            asg.update(part)
        yield asg


def g_equiv(a: G, b: G) -> bool:
    return all(g_eval(a, s) == g_eval(b, s) for s in assignments([a, b]))


def g_implies(a: G, b: G) -> bool:
    return all((not g_eval(a, s)) or g_eval(b, s) for s in assignments([a, b]))


def g_sat(a: G) -> bool:
    return any(g_eval(a, s) for s in assignments([a]))


def g_disjoint(a: G, b: G) -> bool:
    return not any(g_eval(a, s) and g_eval(b, s) for s in assignments([a, b]))


def count_true(gs: Sequence[G], under: G = TRUE) -> Tuple[int, int]:
    """(min, max) number of guards in `gs` that hold, over all assignments
    satisfying `under`.  Used for 'exactly one event on every path'."""
    lo, hi = None, None
    for s in assignments(list(gs) + [under]):
        if not g_eval(under, s):
            continue
        n = sum(1 for g in gs if g_eval(g, s))
        lo = n if lo is None else min(lo, n)
        hi = n if hi is None else max(hi, n)
    if lo is None:
        return (0, 0)
    return (lo, hi)


def _unit_conjuncts(g: "G", depth: int = 0) -> list:
    """The literal conjuncts of g after unit propagation: a disjunction all but one of whose members contradict the
    literals found so far contributes the conjuncts of the surviving member."""
    items = list(g.a) if g.kind == "and" else [g]
    lits = [x for x in items if x.kind in ("sign", "not", "atom")]
    pending = [x for x in items if x.kind == "or"]
    progress = True
    while pending and progress and depth < 3:
        progress = False
        for d in list(pending):
            ctx = g_and(*lits) if lits else TRUE
            alive = [m for m in d.a if g_sat(g_and(ctx, m))]
            if len(alive) == 1:
                pending.remove(d)
                lits += [x for x in _unit_conjuncts(alive[0], depth + 1) if all(x.key != y.key for y in lits)]
                progress = True
    return lits


def equalities_of(g: "G") -> dict:
    """atom key -> value replacements implied by the equality conjuncts of a path condition (`m == 0`,
    `y[0] - y[-1] == 0`: solved for a scalar atom that occurs linearly with a numeric coefficient and nowhere else
    in the equation).  Used to compare a value with its reference *on that path* (anf.replace_atoms)."""
    from .intervals import linear_in
    from . import anf
    out: dict = {}
    items = _unit_conjuncts(g)
    for x in items:
        if x.kind != "sign" or x.b != OPS["=="]:
            continue
        try:
            e = anf.replace_atoms(x.a, out) if out else x.a
        except ZeroDivisionError:
            continue
        if e.den != {(): 1}:
            e = anf.Rat(dict(e.num))          # a quotient is zero exactly when its numerator is
        for a in sorted(e.atoms(), key=lambda t: (t.kind != "sym", len(repr(t)))):
            if a.array or a.skey in out:
                continue
            lin = linear_in(e, a)
            if lin is None or lin[0] == 0:
                continue
            coef, rest = lin
            if any(t.skey == a.skey for t in rest.all_atoms()):
                continue
            out[a.skey] = rest.neg().div(anf.Rat.const(coef))
            break
    return out
