"""Interface of the *installed dependencies*.

C20 says that every attribute of an imported module must resolve "against the
package itself and the installed dependencies".  For third-party / stdlib
modules the only authority is the installed module object, so this file imports
those (never ``kneeliverse``) and answers two questions: does a dotted
attribute chain exist, and can a call with a given shape bind to the callable's
signature.
"""

from __future__ import annotations

import importlib
import inspect
from typing import Dict, Iterable, Optional, Tuple

from .model import PKG

_MISSING = object()
_cache: Dict[str, object] = {}
_versions: Dict[str, str] = {}


class DepError(Exception):
    pass


def import_dep(dotted: str):
    """Import a dependency module.  Refuses to import the analysed package."""
    if dotted == PKG or dotted.startswith(PKG + "."):
        raise DepError("refusing to import the analysed package")
    if dotted in _cache:
        m = _cache[dotted]
        if m is _MISSING:
            raise DepError(f"module {dotted} is not importable")
        return m
    try:
        m = importlib.import_module(dotted)
    except Exception as e:  # ImportError and anything an import may raise
        _cache[dotted] = _MISSING
        raise DepError(f"module {dotted} is not importable: {type(e).__name__}: {e}")
    _cache[dotted] = m
    root = dotted.split(".")[0]
    if root not in _versions:
        try:
            rm = importlib.import_module(root)
            v = getattr(rm, "__version__", None)
            if v is None:
                try:
                    from importlib import metadata
                    dist = {"uts": "pyUTSAlgorithms"}.get(root, root)
                    v = metadata.version(dist)
                except Exception:
                    v = "stdlib/unknown"
            _versions[root] = str(v)
        except Exception:
            _versions[root] = "unknown"
    return m


def versions() -> Dict[str, str]:
    return dict(_versions)


def resolve_chain(root_obj, chain: Iterable[str]) -> Tuple[bool, object, Optional[str]]:
    """getattr chain on a dependency object.  Returns (ok, obj, missing_attr)."""
    obj = root_obj
    for a in chain:
        try:
            obj = getattr(obj, a)
        except AttributeError:
            return False, obj, a
        except Exception:
            # exotic descriptor: treat as existing but opaque
            return True, None, None
    return True, obj, None


def check_call(obj, npos: int, kwnames: Iterable[str], has_star=False, has_dstar=False) -> Optional[str]:
    """Arity check against a dependency callable, when its signature is known."""
    if has_star or has_dstar or obj is None:
        return None
    try:
        sig = inspect.signature(obj)
    except (TypeError, ValueError):
        return None
    params = list(sig.parameters.values())
    if any(p.kind is p.VAR_POSITIONAL for p in params) and any(p.kind is p.VAR_KEYWORD for p in params):
        return None
    try:
        sig.bind(*([None] * npos), **{k: None for k in kwnames})
    except TypeError as e:
        return str(e)
    return None


def type_has_attr(tp, attr: str) -> bool:
    return hasattr(tp, attr)
