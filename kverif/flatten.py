"""Helper flattening: an exact source-to-source normalisation used for a second reading.

A maintainer who extracts a piece of a function into a private helper `_h(...)` of the same module (or splits a public
function into a thin wrapper and a private worker) does not change what the function computes - but the rules of this
package read *shapes* (the loop of a filter, the stack of a scan, the exits of a fit), and a shape that moved into a helper
is not where they look for it.  Their honest answer is then "not read" (exit 2).

Before giving that answer the property is read once more on the *flattened* program: every statement-level call of a
private same-module helper is replaced by the helper's body -

    T = _h(a, k=b)      ==>     p1__h1 = a; p2__h1 = b; <body of _h, locals renamed *__h1, `return e` -> `T = e`>

The transformation is exact (no behaviour is added or removed):
  * arguments are evaluated once, in call order, and bound to fresh names (aliasing of mutable arguments is kept: the
    parameter is another name for the same object, as in a call);
  * every local of the helper is renamed with a per-site suffix, so no name of the caller is captured;
  * guard-clause returns (`if c: return v` followed by the rest) become if / else; a helper with a return inside a loop,
    a try or a with block is left alone; so is one with nested functions, lambdas, global / nonlocal, yield, decorators,
    *args / **kwargs, or a parameter default that is not a constant;
  * recursion is not unfolded (depth bound 4, a helper already on the inlining stack is left as a call).

Nothing here decides a property: the rules decide, on a program that computes the same thing.
"""

from __future__ import annotations

import ast
import copy
from typing import Dict, List, Optional

from .model import keep

MAX_DEPTH = 4


class _NotInlinable(Exception):
    pass


def _is_simple_default(d) -> bool:
    if d is None:
        return True
    if isinstance(d, ast.Constant):
        return True
    if isinstance(d, ast.UnaryOp) and isinstance(d.operand, ast.Constant):
        return True
    if isinstance(d, ast.Attribute) and isinstance(d.value, (ast.Name, ast.Attribute)):
        return True          # an enum member / module constant
    return False


def eligible(fn: ast.FunctionDef) -> bool:
    if fn.decorator_list or not fn.name.startswith("_") or fn.name.startswith("__"):
        return False
    a = fn.args
    if a.vararg or a.kwarg or a.posonlyargs:
        return False
    if not all(_is_simple_default(d) for d in list(a.defaults) + list(a.kw_defaults)):
        return False
    for n in ast.walk(fn):
        if n is fn:
            continue
        if isinstance(n, (ast.FunctionDef, ast.AsyncFunctionDef, ast.ClassDef, ast.Lambda, ast.Global, ast.Nonlocal, ast.Yield, ast.YieldFrom,
                          ast.Await, ast.AsyncFor, ast.AsyncWith)):
            return False
    return _returns_structured(fn.body)


def _has_return(stmts) -> bool:
    return any(isinstance(n, ast.Return) for st in stmts for n in ast.walk(st))


def _returns_structured(stmts) -> bool:
    """Returns occur only as the last statement of a block reached through if / else nesting from the top."""
    for k, st in enumerate(stmts):
        if isinstance(st, ast.Return):
            if k != len(stmts) - 1:
                return False        # dead code after a return: leave such a helper alone
            continue
        if isinstance(st, ast.If):
            if not _returns_structured(st.body) or not _returns_structured(st.orelse):
                return False
            continue
        if _has_return([st]):
            return False            # a return inside a loop / try / with
    return True


def _always_returns(stmts) -> bool:
    if not stmts:
        return False
    last = stmts[-1]
    if isinstance(last, ast.Return):
        return True
    if isinstance(last, ast.If):
        return _always_returns(last.body) and _always_returns(last.orelse)
    return False


def _locals_of(fn: ast.FunctionDef) -> set:
    names = {a.arg for a in fn.args.args + fn.args.kwonlyargs}
    for n in ast.walk(fn):
        if isinstance(n, ast.Name) and isinstance(n.ctx, (ast.Store, ast.Del)):
            names.add(n.id)
        elif isinstance(n, ast.ExceptHandler) and n.name:
            names.add(n.name)
    return names


class _Rename(ast.NodeTransformer):
    def __init__(self, names: set, suffix: str, direct: Optional[Dict[str, str]] = None):
        self.names, self.suffix, self.direct = names, suffix, direct or {}

    def visit_Name(self, node):
        if node.id in self.direct:
            return ast.copy_location(ast.Name(id=self.direct[node.id], ctx=node.ctx), node)
        if node.id in self.names:
            return ast.copy_location(ast.Name(id=node.id + self.suffix, ctx=node.ctx), node)
        return node

    def visit_ExceptHandler(self, node):
        self.generic_visit(node)
        if node.name and node.name in self.names:
            node.name = node.name + self.suffix
        return node


def _convert_returns(stmts: List[ast.stmt], target: Optional[str]) -> List[ast.stmt]:
    """Statement list with structured returns -> statement list without: `return e` becomes `target = e` (or the bare
    expression when the value is dropped) and what follows a guard clause moves into its else branch."""
    out: List[ast.stmt] = []
    for k, st in enumerate(stmts):
        if isinstance(st, ast.Return):
            val = st.value if st.value is not None else ast.Constant(value=None)
            if target is not None:
                out.append(ast.Assign(targets=[ast.Name(id=target, ctx=ast.Store())], value=val, lineno=st.lineno))
            elif st.value is not None and not isinstance(st.value, (ast.Constant, ast.Name)):
                out.append(ast.Expr(value=val))
            return out
        if isinstance(st, ast.If) and _has_return([st]):
            rest = stmts[k + 1:]
            body_ret, else_ret = _always_returns(st.body), _always_returns(st.orelse)
            body = _convert_returns(st.body + ([] if body_ret else rest), target)
            # (when neither side always returns, both continue with the rest: duplicated, which is exact)
            orelse = _convert_returns(st.orelse + ([] if else_ret else (copy.deepcopy(rest) if not body_ret else rest)), target)
            out.append(ast.If(test=st.test, body=body or [ast.Pass()], orelse=orelse))
            return out
        out.append(st)
    # fell off the end: the helper returns None here
    if target is not None:
        out.append(ast.Assign(targets=[ast.Name(id=target, ctx=ast.Store())], value=ast.Constant(value=None)))
    return out


class Flattener:
    def __init__(self, module):
        self.mod = module
        self.fns: Dict[str, ast.FunctionDef] = {n: fi.node for n, fi in module.functions.items()}
        self.counter = 0
        self.inlined: List[str] = []

    # -- call sites -----------------------------------------------------------------
    def _callee(self, call) -> Optional[ast.FunctionDef]:
        if isinstance(call, ast.Call) and isinstance(call.func, ast.Name) and call.func.id in self.fns:
            fn = self.fns[call.func.id]
            # the name must still mean the module-level function (not shadowed by a local of the caller)
            if call.func.id in self._caller_locals:
                return None
            if eligible(fn):
                return fn
        return None

    def _bind(self, fn: ast.FunctionDef, call: ast.Call, suffix: str) -> List[ast.stmt]:
        params = [a.arg for a in fn.args.args]
        kwonly = [a.arg for a in fn.args.kwonlyargs]
        if any(isinstance(a, ast.Starred) for a in call.args) or any(k.arg is None for k in call.keywords):
            raise _NotInlinable("star arguments")
        if len(call.args) > len(params):
            raise _NotInlinable("too many arguments")
        bound: Dict[str, ast.expr] = {}
        order: List[str] = []
        for p, a in zip(params, call.args):
            bound[p] = a
            order.append(p)
        for k in call.keywords:
            if k.arg in bound or k.arg not in params + kwonly:
                raise _NotInlinable("keyword mismatch")
            bound[k.arg] = k.value
            order.append(k.arg)
        nd = len(fn.args.defaults)
        for i, p in enumerate(params):
            if p not in bound:
                j = i - (len(params) - nd)
                if j < 0:
                    raise _NotInlinable("missing argument")
                bound[p] = copy.deepcopy(fn.args.defaults[j])
                order.append(p)
        for p, d in zip(kwonly, fn.args.kw_defaults):
            if p not in bound:
                if d is None:
                    raise _NotInlinable("missing keyword-only argument")
                bound[p] = copy.deepcopy(d)
                order.append(p)
        # a parameter that the helper never rebinds and that receives a plain local name of the caller *is* that name
        # (the caller's variable cannot change while the helper runs): no fresh binding, the body reads the caller's name
        rebound = {n.id for n in ast.walk(fn) if isinstance(n, ast.Name) and isinstance(n.ctx, (ast.Store, ast.Del))}
        direct = {p: bound[p].id for p in order if isinstance(bound[p], ast.Name) and p not in rebound and bound[p].id in self._scope_locals}
        self._direct = direct
        return [ast.Assign(targets=[ast.Name(id=p + suffix, ctx=ast.Store())], value=bound[p]) for p in order if p not in direct]

    def _expand(self, call: ast.Call, fn: ast.FunctionDef, mode: str, site: ast.stmt, depth: int, stack: tuple):
        """(statements, result name) for one inlined call; mode: 'return' | 'value' | 'drop'."""
        self.counter += 1
        suffix = f"__{fn.name.strip('_')}{self.counter}"
        binds = self._bind(fn, call, suffix)
        body = copy.deepcopy([st for st in fn.body
                              if not (isinstance(st, ast.Expr) and isinstance(st.value, ast.Constant) and isinstance(st.value.value, str))])
        ren = _Rename(_locals_of(fn), suffix, self._direct)
        body = [ren.visit(st) for st in body]
        self._scope_locals |= {n + suffix for n in _locals_of(fn)}
        result = None
        if mode == "return":
            if not _always_returns(body):
                body = body + [ast.Return(value=ast.Constant(value=None))]
        else:
            result = ("ret" + suffix) if mode == "value" else None
            body = _convert_returns(body, result)
        new = binds + body
        for st in new:
            for sub in ast.walk(st):
                if isinstance(sub, (ast.expr, ast.stmt)):
                    ast.copy_location(sub, site)
            ast.fix_missing_locations(st)
        self.inlined.append(fn.name)
        # helpers called by the helper
        new = self._stmts(new, depth + 1, stack + (fn.name,))
        return new, result

    def _find_call(self, st: ast.stmt, stack: tuple):
        """The helper call this statement is built around, if it can be taken out without changing the evaluation order:
        the whole value of an assignment / return / expression statement, or nested in it with only names, constants and
        attribute reads evaluated before it."""
        if isinstance(st, ast.AugAssign) and not isinstance(st.target, ast.Name):
            return None             # the target is read before the value is computed
        if isinstance(st, (ast.Assign, ast.AugAssign, ast.AnnAssign, ast.Return, ast.Expr)):
            val = st.value
        else:
            return None
        if val is None:
            return None
        fn = self._callee(val)
        if fn is not None and fn.name not in stack:
            return val, fn, True
        # nested: left-to-right walk; everything evaluated before the call must be side-effect free and not depend on state
        # the helper could change (names, constants, attribute reads of names)
        found = []

        def pure(e) -> bool:
            return isinstance(e, (ast.Name, ast.Constant)) or (isinstance(e, ast.Attribute) and pure(e.value))

        def walk(e) -> bool:
            """True while everything so far is pure; records the first helper call reached in evaluation order."""
            if found:
                return True
            if pure(e):
                return True
            if isinstance(e, ast.Call):
                f2 = self._callee(e)
                if f2 is not None and f2.name not in stack:
                    found.append((e, f2))
                    return True
                if not pure(e.func):
                    return False
                for a in e.args:
                    if isinstance(a, ast.Starred) or not walk(a):
                        return False
                    if found:
                        return True
                for k in e.keywords:
                    if not walk(k.value):
                        return False
                    if found:
                        return True
                return False          # an opaque call evaluated before any helper call: stop (it may have effects)
            if isinstance(e, ast.BinOp):
                return walk(e.left) and (bool(found) or walk(e.right))
            if isinstance(e, ast.UnaryOp):
                return walk(e.operand)
            if isinstance(e, (ast.Tuple, ast.List)):
                for x in e.elts:
                    if not walk(x):
                        return False
                    if found:
                        return True
                return True
            if isinstance(e, ast.Subscript):
                return walk(e.value) and (bool(found) or walk(e.slice))
            return False
        walk(val)
        if found:
            return found[0][0], found[0][1], False
        return None

    def _stmts(self, stmts: List[ast.stmt], depth: int, stack: tuple) -> List[ast.stmt]:
        out: List[ast.stmt] = []
        for st in stmts:
            st = self._compound(st, depth, stack)
            hit = self._find_call(st, stack) if depth < MAX_DEPTH else None
            if hit is None:
                out.append(st)
                continue
            call, fn, whole = hit
            try:
                if whole and isinstance(st, ast.Return):
                    new, _ = self._expand(call, fn, "return", st, depth, stack)
                    out.extend(new)
                elif whole and isinstance(st, ast.Expr):
                    new, _ = self._expand(call, fn, "drop", st, depth, stack)
                    out.extend(new)
                else:
                    new, res = self._expand(call, fn, "value", st, depth, stack)
                    st2 = copy.copy(st)
                    name = ast.copy_location(ast.Name(id=res, ctx=ast.Load()), call)
                    st2.value = name if whole else _replace_node(copy.deepcopy(st.value), st.value, call, name)
                    ast.fix_missing_locations(st2)
                    out.extend(new)
                    # the rewritten statement may hold further helper calls
                    out.extend(self._stmts([st2], depth, stack) if not whole else [st2])
            except _NotInlinable:
                out.append(st)
        return out

    def _compound(self, st: ast.stmt, depth: int, stack: tuple) -> ast.stmt:
        fields = [f for f in ("body", "orelse", "finalbody") if isinstance(getattr(st, f, None), list) and getattr(st, f)
                  and isinstance(getattr(st, f)[0], ast.stmt)]
        if not fields and not isinstance(st, ast.Try):
            return st
        if isinstance(st, (ast.FunctionDef, ast.AsyncFunctionDef, ast.ClassDef)):
            return st
        new = copy.copy(st)
        changed = False
        for f in fields:
            old = getattr(st, f)
            upd = self._stmts(list(old), depth, stack)
            if len(upd) != len(old) or any(a is not b for a, b in zip(upd, old)):
                changed = True
            setattr(new, f, upd)
        if isinstance(st, ast.Try):
            hs = []
            for h in st.handlers:
                upd = self._stmts(list(h.body), depth, stack)
                if len(upd) != len(h.body) or any(a is not b for a, b in zip(upd, h.body)):
                    h2 = copy.copy(h)
                    h2.body = upd
                    hs.append(h2)
                    changed = True
                else:
                    hs.append(h)
            new.handlers = hs
        return new if changed else st

    def function(self, fi) -> Optional[ast.FunctionDef]:
        self._caller_locals = _locals_of(fi.node)
        self._scope_locals = set(self._caller_locals)
        before = len(self.inlined)
        body = self._stmts(list(fi.node.body), 0, (fi.name,))
        if len(self.inlined) == before:
            return None
        node = copy.copy(fi.node)
        node.body = body
        ast.fix_missing_locations(node)
        return node


def _replace_node(new_root, old_root, old_target, replacement):
    """new_root is a deep copy of old_root: replace the copy of old_target by replacement (found by parallel walk)."""
    if old_root is old_target:
        return replacement
    for (f, ov), (_f2, nv) in zip(ast.iter_fields(old_root), ast.iter_fields(new_root)):
        if isinstance(ov, ast.AST):
            r = _replace_node(nv, ov, old_target, replacement)
            if r is not nv:
                setattr(new_root, f, r)
                return new_root
        elif isinstance(ov, list):
            for i, (o, n) in enumerate(zip(ov, nv)):
                if isinstance(o, ast.AST):
                    r = _replace_node(n, o, old_target, replacement)
                    if r is not n:
                        nv[i] = r
                        return new_root
    return new_root


def flatten_repo(repo) -> Dict[str, List[str]]:
    """Replaces, in place, the body of every top-level package function by its flattened form.  Returns
    {function: [helpers inlined]} for the evidence."""
    done: Dict[str, List[str]] = {}
    for mod in repo.package_modules():
        fl = Flattener(mod)
        originals = dict(fl.fns)
        for name, fi in list(mod.functions.items()):
            fl.fns = originals                  # always inline the *original* helper bodies (recursion handled by depth / stack)
            before = len(fl.inlined)
            node = fl.function(fi)
            if node is None:
                continue
            keep(node)
            known = mod.node_scope
            mod.scopes[id(node)] = fi.scope
            mod.node_scope[id(node)] = known.get(id(fi.node), mod.top)

            def register(n, parent, scope):
                if id(n) not in known:
                    known[id(n)] = scope
                mod.parents[id(n)] = parent
                for c in ast.iter_child_nodes(n):
                    register(c, n, scope)
            for st in node.body:
                register(st, node, fi.scope)
            for a in ast.iter_child_nodes(node.args):
                pass
            fi.node = node
            done[fi.qualname] = sorted(set(fl.inlined[before:]))
    return done
