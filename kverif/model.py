"""Program model: parsed modules, scopes, imports, classes, functions.

The model is built from source text only.  Anything the analyser does not
understand (``global``, ``nonlocal``, star imports, ``exec`` ...) raises
AnalysisError so that the check fails closed.
"""

from __future__ import annotations

import ast
import builtins
import hashlib
import os
from dataclasses import dataclass, field
from typing import Dict, Iterable, List, Optional, Set, Tuple

from . import AnalysisError, repo_root

PKG = "kneeliverse"

SCOPE_NODES = (ast.FunctionDef, ast.AsyncFunctionDef, ast.Lambda, ast.ClassDef,
               ast.ListComp, ast.SetComp, ast.DictComp, ast.GeneratorExp)

BUILTINS = set(dir(builtins))


# --------------------------------------------------------------------------
# scopes
# --------------------------------------------------------------------------

class Scope:
    def __init__(self, node, kind: str, parent: Optional["Scope"], module: "Module"):
        self.node = node
        self.kind = kind            # module | function | lambda | class | comp
        self.parent = parent
        self.module = module
        self.bound: Set[str] = set()
        self.params: List[str] = []
        self.children: List[Scope] = []
        self.imports: Dict[str, Tuple] = {}   # alias -> ('module', full) | ('from', mod, name)
        if parent is not None:
            parent.children.append(self)

    @property
    def name(self) -> str:
        n = self.node
        if isinstance(n, ast.Module):
            return "<module>"
        if isinstance(n, ast.Lambda):
            return "<lambda>"
        if isinstance(n, (ast.ListComp, ast.SetComp, ast.DictComp, ast.GeneratorExp)):
            return "<comp>"
        return n.name

    def qualname(self) -> str:
        parts = []
        s = self
        while s is not None and s.kind != "module":
            parts.append(s.name)
            s = s.parent
        return ".".join(reversed(parts)) or "<module>"

    def enclosing_function(self) -> Optional["Scope"]:
        s = self
        while s is not None:
            if s.kind in ("function", "lambda"):
                return s
            s = s.parent
        return None

    def lookup(self, name: str):
        """Python's LEGB rule.  Returns (kind, scope) with kind in
        local | enclosing | global | builtin, or None when unresolved."""
        if name in self.bound:
            return ("global" if self.kind == "module" else "local", self)
        s = self.parent
        while s is not None:
            if s.kind == "class":       # class scopes are invisible to nested code
                s = s.parent
                continue
            if name in s.bound:
                return ("global" if s.kind == "module" else "enclosing", s)
            s = s.parent
        if name in BUILTINS:
            return ("builtin", None)
        return None

    def lookup_import(self, name: str):
        """The import record a name is bound to, when the *only* binding of that
        name in the resolving scope is an import."""
        r = self.lookup(name)
        if r is None or r[1] is None:
            return None
        return r[1].imports.get(name)


def _target_names(t, out: Set[str]):
    if isinstance(t, ast.Name):
        out.add(t.id)
    elif isinstance(t, (ast.Tuple, ast.List)):
        for e in t.elts:
            _target_names(e, out)
    elif isinstance(t, ast.Starred):
        _target_names(t.value, out)
    # Subscript / Attribute targets bind nothing


class _ScopeBuilder(ast.NodeVisitor):
    def __init__(self, module: "Module"):
        self.module = module
        self.scope: Scope = None
        self.node_scope: Dict[int, Scope] = {}

    # generic ----------------------------------------------------------------
    def visit(self, node):
        self.node_scope[id(node)] = self.scope
        return super().visit(node)

    def build(self, tree: ast.Module) -> Scope:
        top = Scope(tree, "module", None, self.module)
        self.scope = top
        self.node_scope[id(tree)] = top
        for st in tree.body:
            self.visit(st)
        return top

    def _enter(self, node, kind):
        s = Scope(node, kind, self.scope, self.module)
        self.module.scopes[id(node)] = s
        return s

    # bindings ---------------------------------------------------------------
    def visit_Global(self, node):
        raise AnalysisError(f"{self.module.relpath}:{node.lineno}: 'global' statement is outside the analysed subset")

    def visit_Nonlocal(self, node):
        raise AnalysisError(f"{self.module.relpath}:{node.lineno}: 'nonlocal' statement is outside the analysed subset")

    def visit_Import(self, node):
        for a in node.names:
            if a.asname:
                self.scope.bound.add(a.asname)
                self.scope.imports[a.asname] = ("module", a.name)
            else:
                root = a.name.split(".")[0]
                self.scope.bound.add(root)
                # `import a.b.c` binds `a`; remember every dotted module imported
                self.scope.imports.setdefault(root, ("module", root))
                self.module.dotted_imports.add(a.name)

    def visit_ImportFrom(self, node):
        if node.level:
            raise AnalysisError(f"{self.module.relpath}:{node.lineno}: relative import is outside the analysed subset")
        for a in node.names:
            if a.name == "*":
                raise AnalysisError(f"{self.module.relpath}:{node.lineno}: star import is outside the analysed subset")
            nm = a.asname or a.name
            self.scope.bound.add(nm)
            self.scope.imports[nm] = ("from", node.module, a.name)

    def _function(self, node, kind):
        # decorators, defaults and annotations are evaluated in the enclosing scope
        if kind == "function":
            self.scope.bound.add(node.name)
            for d in node.decorator_list:
                self.visit(d)
            if node.returns is not None:
                self.visit(node.returns)
        a = node.args
        for d in list(a.defaults) + [k for k in a.kw_defaults if k is not None]:
            self.visit(d)
        for arg in a.posonlyargs + a.args + a.kwonlyargs + ([a.vararg] if a.vararg else []) + ([a.kwarg] if a.kwarg else []):
            if arg.annotation is not None:
                self.visit(arg.annotation)
        outer = self.scope
        s = self._enter(node, kind)
        for arg in a.posonlyargs + a.args + a.kwonlyargs:
            s.bound.add(arg.arg)
            s.params.append(arg.arg)
        if a.vararg:
            s.bound.add(a.vararg.arg)
        if a.kwarg:
            s.bound.add(a.kwarg.arg)
        self.scope = s
        if kind == "function":
            for st in node.body:
                self.visit(st)
        else:
            self.visit(node.body)
        self.scope = outer

    def visit_FunctionDef(self, node):
        self._function(node, "function")

    def visit_AsyncFunctionDef(self, node):
        raise AnalysisError(f"{self.module.relpath}:{node.lineno}: async def is outside the analysed subset")

    def visit_Lambda(self, node):
        self._function(node, "lambda")

    def visit_ClassDef(self, node):
        self.scope.bound.add(node.name)
        for d in node.decorator_list:
            self.visit(d)
        for b in node.bases:
            self.visit(b)
        for k in node.keywords:
            self.visit(k.value)
        outer = self.scope
        s = self._enter(node, "class")
        self.scope = s
        for st in node.body:
            self.visit(st)
        self.scope = outer

    def _comp(self, node, elts):
        gens = node.generators
        # first iterable is evaluated in the enclosing scope
        self.visit(gens[0].iter)
        outer = self.scope
        s = self._enter(node, "comp")
        self.scope = s
        for i, g in enumerate(gens):
            tn: Set[str] = set()
            _target_names(g.target, tn)
            s.bound |= tn
            self.visit(g.target)
            if i > 0:
                self.visit(g.iter)
            for c in g.ifs:
                self.visit(c)
        for e in elts:
            self.visit(e)
        self.scope = outer

    def visit_ListComp(self, node):
        self._comp(node, [node.elt])

    def visit_SetComp(self, node):
        self._comp(node, [node.elt])

    def visit_GeneratorExp(self, node):
        self._comp(node, [node.elt])

    def visit_DictComp(self, node):
        self._comp(node, [node.key, node.value])

    def visit_Assign(self, node):
        for t in node.targets:
            _target_names(t, self.scope.bound)
        self.generic_visit(node)

    def visit_AugAssign(self, node):
        _target_names(node.target, self.scope.bound)
        self.generic_visit(node)

    def visit_AnnAssign(self, node):
        _target_names(node.target, self.scope.bound)
        self.generic_visit(node)

    def visit_For(self, node):
        _target_names(node.target, self.scope.bound)
        self.generic_visit(node)

    def visit_With(self, node):
        for it in node.items:
            if it.optional_vars is not None:
                _target_names(it.optional_vars, self.scope.bound)
        self.generic_visit(node)

    def visit_ExceptHandler(self, node):
        if node.name:
            self.scope.bound.add(node.name)
        self.generic_visit(node)

    def visit_NamedExpr(self, node):
        # walrus binds in the nearest non-comprehension scope
        s = self.scope
        while s.kind == "comp":
            s = s.parent
        _target_names(node.target, s.bound)
        self.generic_visit(node)

    def visit_Match(self, node):
        raise AnalysisError(f"{self.module.relpath}:{node.lineno}: match statement is outside the analysed subset")


# --------------------------------------------------------------------------
# functions / classes / modules
# --------------------------------------------------------------------------

@dataclass
class Signature:
    posonly: List[str]
    args: List[str]
    n_defaults: int
    vararg: Optional[str]
    kwonly: List[str]
    kwonly_required: List[str]
    kwarg: Optional[str]

    @property
    def positional(self) -> List[str]:
        return self.posonly + self.args

    @property
    def required_positional(self) -> List[str]:
        p = self.positional
        return p[: len(p) - self.n_defaults] if self.n_defaults else list(p)

    def check_call(self, npos: int, kwnames: Iterable[str], has_star: bool = False, has_dstar: bool = False) -> Optional[str]:
        """Returns a message when a call with `npos` positionals and the given
        keyword names cannot bind; None when it can (or cannot be decided)."""
        kwnames = list(kwnames)
        pos = self.positional
        if not has_star and npos > len(pos) and not self.vararg:
            return f"takes {len(pos)} positional argument(s) but {npos} were given"
        bound = set(pos[:npos])
        for k in kwnames:
            if k in self.posonly:
                return f"positional-only parameter '{k}' passed by keyword"
            if k in bound:
                return f"got multiple values for argument '{k}'"
            if k not in self.args and k not in self.kwonly and not self.kwarg:
                return f"got an unexpected keyword argument '{k}'"
            bound.add(k)
        if has_star or has_dstar:
            return None
        missing = [p for p in self.required_positional if p not in bound]
        missing += [k for k in self.kwonly_required if k not in bound]
        if missing:
            return f"missing required argument(s): {', '.join(missing)}"
        return None


def signature_of(node) -> Signature:
    a = node.args
    kw_req = [k.arg for k, d in zip(a.kwonlyargs, a.kw_defaults) if d is None]
    return Signature([x.arg for x in a.posonlyargs], [x.arg for x in a.args], len(a.defaults),
                     a.vararg.arg if a.vararg else None, [x.arg for x in a.kwonlyargs], kw_req,
                     a.kwarg.arg if a.kwarg else None)


@dataclass
class FuncInfo:
    module: "Module"
    name: str
    node: ast.FunctionDef
    scope: Scope
    cls: Optional[str] = None

    @property
    def qualname(self) -> str:
        return f"{self.module.short}.{self.cls + '.' if self.cls else ''}{self.name}"

    @property
    def signature(self) -> Signature:
        return signature_of(self.node)

    @property
    def is_public(self) -> bool:
        return not self.name.startswith("_") and self.cls is None

    @property
    def lineno(self) -> int:
        return self.node.lineno

    def param_annotation(self, p: str) -> Optional[str]:
        a = self.node.args
        for arg in a.posonlyargs + a.args + a.kwonlyargs:
            if arg.arg == p and arg.annotation is not None:
                return ast.unparse(arg.annotation)
        return None

    def param_default(self, p: str):
        a = self.node.args
        pos = a.posonlyargs + a.args
        nd = len(a.defaults)
        for i, arg in enumerate(pos):
            if arg.arg == p:
                j = i - (len(pos) - nd)
                return a.defaults[j] if j >= 0 else None
        for arg, d in zip(a.kwonlyargs, a.kw_defaults):
            if arg.arg == p:
                return d
        return None


@dataclass
class ClassInfo:
    module: "Module"
    name: str
    node: ast.ClassDef
    members: Set[str] = field(default_factory=set)     # names bound in the class body
    enum_members: List[str] = field(default_factory=list)
    bases: List[str] = field(default_factory=list)

    @property
    def is_enum(self) -> bool:
        return any(b.split(".")[-1] in ("Enum", "IntEnum", "Flag") for b in self.bases)


class Module:
    def __init__(self, repo: "Repo", fullname: str, path: str, role: str):
        self.repo = repo
        self.fullname = fullname          # kneeliverse.rdp | demos.curvature ...
        self.short = fullname.split(".", 1)[1] if fullname.startswith(PKG + ".") else fullname
        self.path = path
        self.relpath = os.path.relpath(path, repo.root)
        self.role = role                  # package | client
        with open(path, "r", encoding="utf-8") as fh:
            self.src = fh.read()
        self.digest = hashlib.sha256(self.src.encode()).hexdigest()
        try:
            self.tree = ast.parse(self.src, filename=path)
        except SyntaxError as e:
            raise AnalysisError(f"{self.relpath}: does not parse: {e}")
        self.scopes: Dict[int, Scope] = {}
        self.dotted_imports: Set[str] = set()
        sb = _ScopeBuilder(self)
        self.top = sb.build(self.tree)
        self.node_scope = sb.node_scope
        self.parents: Dict[int, ast.AST] = {}
        for p in ast.walk(self.tree):
            for c in ast.iter_child_nodes(p):
                self.parents[id(c)] = p
        self.functions: Dict[str, FuncInfo] = {}
        self.classes: Dict[str, ClassInfo] = {}
        self.all_functions: List[FuncInfo] = []
        for st in self.tree.body:
            if isinstance(st, ast.FunctionDef):
                fi = FuncInfo(self, st.name, st, self.scopes[id(st)])
                self.functions[st.name] = fi
                self.all_functions.append(fi)
            elif isinstance(st, ast.ClassDef):
                ci = ClassInfo(self, st.name, st, bases=[ast.unparse(b) for b in st.bases])
                ci.members = set(self.scopes[id(st)].bound)
                for b in st.body:
                    if isinstance(b, ast.Assign):
                        for t in b.targets:
                            if isinstance(t, ast.Name) and not t.id.startswith("_"):
                                ci.enum_members.append(t.id)
                    elif isinstance(b, ast.FunctionDef):
                        self.all_functions.append(FuncInfo(self, b.name, b, self.scopes[id(b)], cls=st.name))
                self.classes[st.name] = ci

    # helpers ----------------------------------------------------------------
    def scope_of(self, node) -> Scope:
        return self.node_scope[id(node)]

    def parent(self, node):
        return self.parents.get(id(node))

    def func(self, name: str) -> FuncInfo:
        if name not in self.functions:
            raise AnalysisError(f"anchor function {self.short}.{name} not found in {self.relpath}")
        return self.functions[name]

    def loc(self, node) -> str:
        return f"{self.relpath}:{getattr(node, 'lineno', 0)}"

    def enclosing_function_name(self, node) -> str:
        s = self.scope_of(node)
        # the scope recorded for a def node itself is its parent's: walk parents
        cur = node
        while cur is not None:
            if isinstance(cur, (ast.FunctionDef, ast.ClassDef)) and cur is not node:
                break
            cur = self.parent(cur)
        names = []
        while cur is not None:
            if isinstance(cur, (ast.FunctionDef, ast.ClassDef)):
                names.append(cur.name)
            cur = self.parent(cur)
        return ".".join(reversed(names)) or "<module>"


class Repo:
    def __init__(self, root: Optional[str] = None, with_clients=False):
        self.root = os.path.abspath(root or repo_root())
        self.modules: Dict[str, Module] = {}
        pkgdir = os.path.join(self.root, "src", PKG)
        if not os.path.isdir(pkgdir):
            raise AnalysisError(f"package directory {pkgdir} not found")
        for fn in sorted(os.listdir(pkgdir)):
            if fn.endswith(".py"):
                short = fn[:-3]
                full = PKG if short == "__init__" else f"{PKG}.{short}"
                self.modules[full] = Module(self, full, os.path.join(pkgdir, fn), "package")
        self.clients: Dict[str, Module] = {}
        if with_clients:
            dirs = ("demos", "examples", "test") if with_clients is True or with_clients == "all" else tuple(with_clients)
            for d in dirs:
                dd = os.path.join(self.root, d)
                if not os.path.isdir(dd):
                    continue
                for fn in sorted(os.listdir(dd)):
                    if fn.endswith(".py"):
                        full = f"{d}.{fn[:-3]}"
                        try:
                            self.clients[full] = Module(self, full, os.path.join(dd, fn), "client")
                        except AnalysisError:
                            # client files are call-site evidence only
                            continue

    def add_module(self, fullname: str, path: str) -> Module:
        """Parse an extra file as if it were a module of the package (positive controls)."""
        m = Module(self, fullname, path, "control")
        m.relpath = path
        self.modules[fullname] = m
        return m

    def mod(self, short: str) -> Module:
        full = short if short.startswith(PKG) else f"{PKG}.{short}"
        if full not in self.modules:
            raise AnalysisError(f"anchor module {full} not found under {self.root}/src/{PKG}")
        return self.modules[full]

    def package_modules(self) -> List[Module]:
        return [m for m in self.modules.values() if m.role == "package"]

    def func(self, qual: str) -> FuncInfo:
        m, f = qual.split(".", 1)
        return self.mod(m).func(f)

    def all_functions(self) -> List[FuncInfo]:
        out = []
        for m in self.package_modules():
            out.extend(m.all_functions)
        return out

    def digest(self) -> str:
        h = hashlib.sha256()
        for k in sorted(self.modules):
            if self.modules[k].role != "package":
                continue
            h.update(k.encode())
            h.update(self.modules[k].digest.encode())
        return h.hexdigest()[:16]

    def is_package_module(self, dotted: str) -> bool:
        return dotted == PKG or dotted in self.modules


_KEEPALIVE: list = []


def keep(node):
    """Synthetic AST nodes are registered in id()-keyed tables (scopes, resolution cache); keep them
    alive for the whole run so that their ids are never reused by later nodes."""
    _KEEPALIVE.append(node)
    return node


def norm_text(node) -> str:
    """Normalised construct text used to key findings (never line numbers)."""
    if isinstance(node, str):
        return " ".join(node.split())
    try:
        return " ".join(ast.unparse(node).split())
    except Exception:
        return "<?>"
