"""E7 helpers: symbolic index intervals and linear obligations.

An index expression is given an interval [lo, hi] of normal forms by a small
table of idioms; obligations that are linear in the index are discharged by
plugging the relevant end of the interval and proving the result non-negative
after substituting the length fact  L = Lmin + k  (k >= 0).
"""

from __future__ import annotations

from fractions import Fraction
from typing import Callable, Dict, List, Optional, Tuple

from . import anf
from .anf import Atom, Rat, sym

C = Rat.const
K = "k!"          # the non-negative slack symbol
anf.NONNEG_SYMS.add(K)


def single_atom(r: Rat) -> Optional[Atom]:
    ats = r.atoms()
    if len(ats) == 1 and r.equals(Rat.from_atom(ats[0])):
        return ats[0]
    return None


def split_const(r: Rat) -> Tuple[Rat, Fraction]:
    """r = rest + c with c the constant term."""
    if r.den != {(): Fraction(1)}:
        return r, Fraction(0)
    c = r.num.get((), Fraction(0))
    return r.sub(C(c)), c


def index_interval(idx: Rat, length_of: Callable[[Rat], Rat]) -> Optional[Tuple[Rat, Rat, str]]:
    """[lo, hi] of an index expression, by idiom.  `length_of(v)` gives the length of an array value."""
    rest, c = split_const(idx)
    a = single_atom(rest)
    if a is None:
        return None
    if a.kind == "fn" and a.name in ("argmax", "argmin"):
        X = a.args[0]
        xa = single_atom(X)
        if xa is not None and xa.kind == "fn" and xa.name == "slice":
            base, lo, hi = xa.args
            Lb = length_of(base)
            lo_c = C(0) if lo.symbols() == {"None"} else lo
            if hi.symbols() == {"None"}:
                hi_v = Lb
            else:
                hc = hi.is_const()
                hi_v = Lb.add(hi) if (hc is not None and hc < 0) else hi
            n = hi_v.sub(lo_c)           # length of the slice
            return C(c), n.sub(C(1)).add(C(c)), f"{a.name} over a slice of length {n}: [0, {n}-1] shifted by {c}"
        Lx = length_of(X)
        return C(c), Lx.sub(C(1)).add(C(c)), f"{a.name} over the whole vector of length {Lx}: [0, {Lx}-1] shifted by {c}"
    if a.kind == "fn" and a.name in ("int", "floor"):
        inner = a.args[0]
        # int(L / 2)  with integer L >= 3  lies in [1, L - 2]
        two = inner.mul(C(2))
        return C(1).add(C(c)), two.sub(C(2)).add(C(c)), f"int(L/2) with L = {two} >= 3: [1, L-2] shifted by {c}", two
    return None


def linear_in(expr: Rat, a: Atom) -> Optional[Tuple[Fraction, Rat]]:
    """expr = coef * a + rest with a numeric coefficient and `a` absent from rest."""
    if expr.den != {(): Fraction(1)}:
        return None
    coef = Fraction(0)
    rest: Dict = {}
    for m, c in expr.num.items():
        occ = [(at, e) for at, e in m if at.skey == a.skey]
        if not occ:
            # the atom must not be nested inside another atom of this monomial
            for at, _e in m:
                if any(x.skey == a.skey for r in at.args for x in r.all_atoms()):
                    return None
            rest[m] = c
            continue
        if len(m) != 1 or occ[0][1] != 1:
            return None
        coef += c
    return coef, Rat(rest) if rest else C(0)


def prove_nonneg(expr: Rat, subst: Dict[str, Rat]) -> bool:
    """expr >= 0 after the substitution (which introduces the slack k >= 0)."""
    e = expr.subst(subst) if subst else expr
    return e.is_nonneg()


def prove_positive(expr: Rat, subst: Dict[str, Rat]) -> bool:
    """expr >= 1 (integers) i.e. expr - 1 >= 0."""
    return prove_nonneg(expr.sub(C(1)), subst)


def int_bounds(g, q: Rat):
    """(lower, upper) integer bounds on the integer-valued quantity q implied by the conjunction g
    (None when unbounded).  Understands sign facts on q + c."""
    from .guards import OPS
    lo = hi = None
    items = g.a if g.kind == "and" else (g,)
    for x in items:
        if x.kind != "sign":
            continue
        signs = x.b
        d = x.a.sub(q)
        c = d.is_const()
        if c is None:
            d2 = x.a.add(q)
            c2 = d2.is_const()
            if c2 is None:
                continue
            c = -c2
            signs = frozenset(-s for s in signs)
        if c.denominator != 1:
            continue
        c = int(c)
        # sign(q + c) in signs
        if signs == OPS[">"]:
            b = -c + 1
            lo = b if lo is None else max(lo, b)
        elif signs == OPS[">="]:
            b = -c
            lo = b if lo is None else max(lo, b)
        elif signs == OPS["<"]:
            b = -c - 1
            hi = b if hi is None else min(hi, b)
        elif signs == OPS["<="]:
            b = -c
            hi = b if hi is None else min(hi, b)
        elif signs == OPS["=="]:
            lo = -c if lo is None else max(lo, -c)
            hi = -c if hi is None else min(hi, -c)
    return lo, hi


def _clamped_position(a: Atom):
    """max(c, e) / min(c, e) with a constant c and e a position expression: (c, e)."""
    if len(a.args) != 2:
        return None
    cs = [x for x in a.args if x.is_const() is not None]
    es = [x for x in a.args if x.is_const() is None]
    if len(cs) != 1 or len(es) != 1:
        return None
    inner = es[0]
    ia = single_atom(inner)
    if ia is not None and ia.name in ("int", "floor") and len(ia.args) == 1:
        inner = ia.args[0]
    ats = [t for t in inner.atoms() if t.kind == "fn" and (t.name in ("argmax", "argmin") or t.name.endswith("searchsorted"))]
    if len(ats) != 1:
        return None
    return cs[0], inner


def position_atom(idx: Rat):
    """idx = s * atom + rest with s = +1 / -1 and atom the single position-valued call of the expression."""
    cands = [a for a in idx.atoms() if a.kind == "fn" and (a.name in ("argmax", "argmin", "int", "floor") or a.name.endswith("searchsorted")
                                                         or (a.name in ("max", "min") and _clamped_position(a) is not None))]
    if len(cands) != 1:
        return None
    lin = linear_in(idx, cands[0])
    if lin is None or lin[0] not in (1, -1):
        return None
    return cands[0], int(lin[0]), lin[1]


def scanned_positions(idx: Rat, length_of: Callable[[Rat], Rat]):
    """For an index built from an argmax / argmin over a (possibly reversed) view of a vector:
    (vector, first scanned position, last scanned position, maps_back, function, reversed) where maps_back says that
    the index is the position *in the vector* of the selected element (view start + position, or view start -
    position for a reversed view).  numpy's argmax / argmin return the first optimum of what they scan: the lowest
    position for a forward view, the highest for a reversed one."""
    pa = position_atom(idx)
    if pa is None:
        return None
    a, s, rest = pa
    if a.name not in ("argmax", "argmin"):
        return None
    X = a.args[0]
    xa = single_atom(X)
    if xa is not None and xa.kind == "fn" and xa.name == "slice":
        base, lo, hi = xa.args
        Lb = length_of(base)
        lo_v = C(0) if lo.symbols() == {"None"} else lo
        if hi.symbols() == {"None"}:
            hi_v = Lb
        else:
            hc = hi.is_const()
            hi_v = Lb.add(hi) if (hc is not None and hc < 0) else hi
        return base, lo_v, hi_v.sub(C(1)), (s > 0 and rest.equals(lo_v)), a.name, False
    if xa is not None and xa.kind == "fn" and xa.name == "rslice":
        from .gvn import rslice_bounds
        base = xa.args[0]
        first, stop = rslice_bounds(xa, length_of(base))
        return base, stop.add(C(1)), first, (s < 0 and rest.equals(first)), a.name, True
    return X, C(0), length_of(X).sub(C(1)), (s > 0 and rest.is_zero()), a.name, False
