"""Positive controls for the zero-count rules of C20 (P, D, Y).

This file is never imported or executed.  It is parsed as if it were a module
of the package; every function below violates exactly one rule and the checker
must report it on every run -- otherwise the rule has gone blind and the check
fails closed (exit 2)."""

import random
import time
import numpy as np


def ctl_write_sort(points: np.ndarray, knees: np.ndarray) -> np.ndarray:
    knees.sort()                      # P: in-place method on an argument
    return knees


def ctl_write_view(points: np.ndarray) -> np.ndarray:
    y = points[:, 1]
    y /= y.max()                      # P: augmented assignment through a view of the argument
    return points


def ctl_write_store(points, idx):
    row = points[idx]
    row[0] = 0.0                      # P: subscript store through an integer-index view
    return row


def _ctl_helper(buf):
    buf.append(1)
    return buf


def ctl_write_via_callee(values: list) -> list:
    return _ctl_helper(values)        # P: callee summary writes its parameter


def ctl_write_put(a: np.ndarray):
    np.put(a, [0], [1])               # P: np.put writes its first argument
    return a


def ctl_copy_is_fine(points: np.ndarray) -> np.ndarray:
    p = points[points[:, 0] > 0]      # boolean mask: copy -- must NOT be reported
    p[0] = 0
    q = points * 2.0
    q[0] = 1
    return p


def ctl_random(points: np.ndarray) -> float:
    return random.random() + np.random.rand()      # D: two nondeterminism sources


def ctl_time(points: np.ndarray) -> float:
    return time.time()                # D


def ctl_layout(points: np.ndarray):
    return points.strides             # Y: layout-revealing attribute of an argument


def ctl_dtype(points: np.ndarray) -> np.ndarray:
    out = np.empty_like(points)
    for i in range(len(points)):
        out[i] = points[i] / 2.0      # Y: float store into an array that inherits the argument's dtype
    return out


_REGISTRY = []


def ctl_global_state(x: float) -> int:
    _REGISTRY.append(x)               # D: module-level mutable state written by a function
    return len(_REGISTRY)
