"""E3 -- alias / mutation analysis.

Flow-sensitive may-alias taint from the array/list parameters of each function
over the CFG.  View-preserving operations keep the taint, copying operations
drop it.  A *write event* on a tainted value is a write into the caller's
argument.  Summaries (writes / may-return) are computed to a fixpoint over the
call graph, including calls through function-pointer slots.
"""

from __future__ import annotations

import ast
from dataclasses import dataclass, field
from typing import Dict, FrozenSet, List, Optional, Set, Tuple

from . import deps
from .cfg import CFG, Node
from .linker import Linker, UNKNOWN
from .model import FuncInfo, Module, Repo, norm_text

MUTATING_METHODS = {"sort", "append", "extend", "insert", "pop", "remove", "clear", "reverse", "fill", "resize",
                    "put", "partition", "itemset", "setfield", "setflags", "byteswap", "update", "popitem",
                    "setdefault", "add", "discard"}
VIEW_METHODS = {"reshape", "ravel", "view", "squeeze", "transpose", "swapaxes", "diagonal"}
VIEW_ATTRS = {"T", "real", "imag", "flat"}
NP_VIEW_FUNCS = {"asarray", "asanyarray", "atleast_1d", "atleast_2d", "atleast_3d", "squeeze", "transpose", "ravel",
                 "reshape", "ascontiguousarray", "asfortranarray", "swapaxes", "broadcast_to", "expand_dims",
                 "moveaxis", "rollaxis", "diagonal", "array_split", "split", "hsplit", "vsplit", "flip", "flipud",
                 "fliplr", "rot90", "nan_to_num"}
NP_WRITE_ARG0 = {"put", "place", "putmask", "copyto", "fill_diagonal", "put_along_axis"}
LAYOUT_ATTRS = {"strides", "flags", "data", "ctypes", "base", "tobytes", "tostring", "view", "itemsize", "nbytes",
                "dtype", "newbyteorder", "byteswap", "getfield", "dump", "dumps", "tofile"}
# .dtype is layout/dtype revealing only when it influences control flow or values; it is listed but
# reported only when used in a comparison or as a dtype= argument (see _layout_events)
# parameters that are real valued by the package's own vocabulary (rule-instance table, one line of reason each)
REAL_PARAMS = {"coef": "the pair (b, m) of real line coefficients produced by the fits (m is a quotient of differences)"}
LIKE_FUNCS = {"empty_like", "zeros_like", "ones_like", "full_like", "copy", "array", "asarray"}

def _box(roots):
    """Roots held *inside* a freshly built container ([a, b], (a, b)): the container itself is a new object, so
    container-level operations on it (append, sort, c[i] = v) never reach the argument; its elements still do."""
    return frozenset(r if r.startswith("[]") else "[]" + r for r in roots)


def _unbox(roots):
    return frozenset(r[2:] if r.startswith("[]") else r for r in roots)


def _plain(roots):
    return frozenset(r for r in roots if not r.startswith("[]"))


SCALAR_ANNOTATIONS = {"int", "float", "bool", "str", "callable", "dict", "complex"}


@dataclass
class Event:
    kind: str           # write | layout | dtype | global-write
    param: str
    node: ast.AST
    how: str


@dataclass
class Summary:
    writes: Dict[str, str] = field(default_factory=dict)     # param -> how
    returns: Set[str] = field(default_factory=set)           # params that may be returned (aliased)
    dtype_returns: Set[str] = field(default_factory=set)     # params whose dtype the returned value inherits


class MutationAnalysis:
    def __init__(self, repo: Repo, linker: Linker):
        self.repo = repo
        self.lk = linker
        self.summaries: Dict[str, Summary] = {}
        self.events: Dict[str, List[Event]] = {}
        self.tracked_params: Dict[str, List[str]] = {}
        self.funcs: Dict[str, FuncInfo] = {}
        for m in repo.modules.values():
            for fi in m.all_functions:
                self.funcs[fi.qualname] = fi
                self.summaries[fi.qualname] = Summary()
        self.returns_float: Dict[str, bool] = {q: False for q in self.funcs}
        self.float_names: Dict[str, Set[str]] = {q: set() for q in self.funcs}
        self._float_fixpoint()
        self._fixpoint()

    # ------------------------------------------------------------------
    def _float_fixpoint(self):
        """Which locals / return values are certainly float valued (a true division, a float literal, a float
        function, or arithmetic over such values), propagated through package calls."""
        for _ in range(6):
            changed = False
            for q, fi in self.funcs.items():
                names = self.float_names[q]
                for p_ in fi.signature.positional if hasattr(fi, "signature") else ():
                    if p_ in REAL_PARAMS and p_ not in names:
                        names.add(p_)
                        changed = True
                for st in ast.walk(fi.node):
                    if isinstance(st, ast.Assign):
                        if self._is_float_expr(fi, st.value, names):
                            for t in st.targets:
                                for n in ast.walk(t):
                                    if isinstance(n, ast.Name) and isinstance(n.ctx, ast.Store) and n.id not in names:
                                        names.add(n.id)
                                        changed = True
                    elif isinstance(st, ast.AugAssign) and isinstance(st.target, ast.Name):
                        if (isinstance(st.op, ast.Div) or self._is_float_expr(fi, st.value, names)) and st.target.id not in names:
                            names.add(st.target.id)
                            changed = True
                rf = any(isinstance(st, ast.Return) and st.value is not None and self._is_float_expr(fi, st.value, names) for st in ast.walk(fi.node))
                if rf and not self.returns_float[q]:
                    self.returns_float[q] = True
                    changed = True
            if not changed:
                break

    def _is_float_expr(self, fi: FuncInfo, e, names: Set[str]) -> bool:
        if _float_valued(e):
            return True
        if isinstance(e, ast.Name):
            return e.id in names
        if isinstance(e, ast.BinOp):
            return self._is_float_expr(fi, e.left, names) or self._is_float_expr(fi, e.right, names)
        if isinstance(e, ast.UnaryOp):
            return self._is_float_expr(fi, e.operand, names)
        if isinstance(e, ast.Tuple):
            return any(self._is_float_expr(fi, x, names) for x in e.elts)
        if isinstance(e, ast.IfExp):
            return self._is_float_expr(fi, e.body, names) or self._is_float_expr(fi, e.orelse, names)
        if isinstance(e, ast.Call):
            r = self.lk.resolve(fi.module, e.func)
            if r.kind == "func":
                return self.returns_float.get(r.obj.qualname, False)
        return False

    POSITION_FUNCS = {"arange", "argsort", "argmax", "argmin", "argwhere", "flatnonzero", "nonzero", "searchsorted"}

    def _is_position_expr(self, fi: FuncInfo, e, depth: int = 0) -> bool:
        """An expression whose values are array positions (platform integers): np.arange(..), x.argsort(), np.argmax(..),
        or a local bound once to one of them."""
        if isinstance(e, ast.Call):
            nm = e.func.attr if isinstance(e.func, ast.Attribute) else (e.func.id if isinstance(e.func, ast.Name) else "")
            return nm in self.POSITION_FUNCS
        if isinstance(e, ast.Name) and depth < 2:
            defs = [n.value for n in ast.walk(fi.node) if isinstance(n, ast.Assign) and len(n.targets) == 1 and isinstance(n.targets[0], ast.Name)
                    and n.targets[0].id == e.id]
            return len(defs) == 1 and self._is_position_expr(fi, defs[0], depth + 1)
        return False

    def _is_tracked_param(self, fi: FuncInfo, p: str) -> bool:
        """Array / list parameters (C20 speaks of 'array and list arguments')."""
        if p == "self":
            return False
        ann = fi.param_annotation(p)
        if ann is not None:
            a = ann.replace(" ", "")
            if a in SCALAR_ANNOTATIONS:
                return False
            if a in ("np.ndarray", "numpy.ndarray", "list", "tuple"):
                return True
            # enum classes of the package / typing constructs over scalars
            r = None
            try:
                from .model import keep
                tree = keep(ast.parse(ann, mode="eval"))
                for n in ast.walk(tree):
                    fi.module.node_scope[id(n)] = fi.module.top
                r = self.lk.resolve(fi.module, tree.body)
            except Exception:
                r = None
            if r is not None and r.kind == "class":
                return False
            return True
        d = fi.param_default(p)
        if isinstance(d, ast.Constant) and isinstance(d.value, (int, float, bool, str)) and d.value is not None:
            return False
        if d is not None and isinstance(d, ast.Attribute):
            r = self.lk.resolve(fi.module, d)
            if r.kind == "enum_member":
                return False
        return True

    def _fixpoint(self):
        changed = True
        rounds = 0
        while changed and rounds < 12:
            changed = False
            rounds += 1
            for q, fi in self.funcs.items():
                s, ev = self._analyse(fi)
                old = self.summaries[q]
                if s.writes.keys() != old.writes.keys() or s.returns != old.returns or s.dtype_returns != old.dtype_returns:
                    self.summaries[q] = s
                    changed = True
                self.events[q] = ev
        self.rounds = rounds

    # ------------------------------------------------------------------
    def _analyse(self, fi: FuncInfo) -> Tuple[Summary, List[Event]]:
        mod = fi.module
        cfg = CFG(fi.node)
        params = [p for p in fi.signature.positional + fi.signature.kwonly]
        tracked = [p for p in params if self._is_tracked_param(fi, p)]
        self.tracked_params[fi.qualname] = tracked
        init: Dict[str, FrozenSet[str]] = {p: frozenset([p]) for p in tracked}
        inn: Dict[int, Optional[Dict[str, FrozenSet[str]]]] = {n.id: None for n in cfg.nodes}
        inn[cfg.entry.id] = init
        order = cfg.rpo()
        outs: Dict[Tuple[int, object], Dict[str, FrozenSet[str]]] = {}
        events: List[Event] = []
        summary = Summary()
        self._like: Dict[str, Set[str]] = {}

        def join(a, b):
            if a is None:
                return dict(b)
            out = dict(a)
            for k, v in b.items():
                out[k] = out.get(k, frozenset()) | v
            return out

        changed = True
        it = 0
        while changed and it < 50:
            changed = False
            it += 1
            for nid in order:
                n = cfg.nodes[nid]
                if nid != cfg.entry.id:
                    acc = None
                    for (p, lab) in cfg.pred[nid]:
                        o = outs.get((p, lab))
                        if o is not None:
                            acc = join(acc, o)
                    if acc is None:
                        continue
                    if inn[nid] != acc:
                        inn[nid] = acc
                        changed = True
                st = inn[nid]
                if st is None:
                    continue
                labels = {lab for (_s, lab) in cfg.succ[nid]} or {None}
                for lab in labels:
                    o = self._transfer(fi, n, dict(st), lab, None, None)
                    if outs.get((nid, lab)) != o:
                        outs[(nid, lab)] = o
                        changed = True
        seen = set()
        for nid in order:
            n = cfg.nodes[nid]
            if inn[nid] is None:
                continue
            labels = sorted({lab for (_s, lab) in cfg.succ[nid]} or {None}, key=str)
            self._transfer(fi, n, dict(inn[nid]), labels[0], events, summary)
        # de-duplicate events
        uniq = []
        for e in events:
            k = (e.kind, e.param, id(e.node))
            if k not in seen:
                seen.add(k)
                uniq.append(e)
        for e in uniq:
            if e.kind == "write":
                summary.writes.setdefault(e.param, e.how)
        return summary, uniq

    # ------------------------------------------------------------------
    def _index_is_basic(self, fi: FuncInfo, sl) -> bool:
        """Basic indexing returns a view; fancy / boolean indexing copies."""
        np = deps.import_dep("numpy")
        if isinstance(sl, ast.Slice):
            return True
        if isinstance(sl, ast.Tuple):
            return all(self._index_is_basic(fi, e) for e in sl.elts)
        if isinstance(sl, ast.Constant):
            return isinstance(sl.value, int) or sl.value is None or sl.value is Ellipsis
        if isinstance(sl, ast.UnaryOp) and isinstance(sl.operand, ast.Constant):
            return True
        if isinstance(sl, (ast.Compare, ast.BoolOp, ast.List, ast.ListComp)):
            return False
        if isinstance(sl, ast.BinOp):
            if isinstance(sl.op, (ast.BitAnd, ast.BitOr, ast.BitXor)):
                return False
            lt = self.lk.expr_type(fi.module, fi.node, sl.left)
            rt = self.lk.expr_type(fi.module, fi.node, sl.right)
            if lt is np.ndarray or rt is np.ndarray:
                return False
            if isinstance(sl.op, ast.Mult) and (isinstance(sl.left, ast.Compare) or isinstance(sl.right, ast.Compare)):
                return False
            return True
        if isinstance(sl, ast.Call):
            t = self.lk.expr_type(fi.module, fi.node, sl)
            return t is not np.ndarray and t is not list
        t = self.lk.expr_type(fi.module, fi.node, sl)
        if t is np.ndarray or t is list:
            return False
        return True   # integer-like or unknown: may be a view (conservative)

    def _taint(self, fi: FuncInfo, e, st) -> FrozenSet[str]:
        if e is None:
            return frozenset()
        if isinstance(e, ast.Name):
            return st.get(e.id, frozenset())
        if isinstance(e, ast.Subscript):
            base = self._taint(fi, e.value, st)
            if not base:
                return base
            boxed = frozenset(r for r in base if r.startswith("[]"))
            out = _plain(base) if self._index_is_basic(fi, e.slice) else frozenset()
            if boxed:
                # an element of a container is the aliasing value itself; a slice of it is still a container
                out |= boxed if isinstance(e.slice, ast.Slice) else _unbox(boxed)
            return out
        if isinstance(e, ast.Attribute):
            if e.attr in VIEW_ATTRS:
                return self._taint(fi, e.value, st)
            return frozenset()
        if isinstance(e, ast.Starred):
            return self._taint(fi, e.value, st)
        if isinstance(e, ast.IfExp):
            return self._taint(fi, e.body, st) | self._taint(fi, e.orelse, st)
        if isinstance(e, ast.BoolOp):
            out = frozenset()
            for v in e.values:
                out |= self._taint(fi, v, st)
            return out
        if isinstance(e, (ast.Tuple, ast.List)):
            out = frozenset()
            for v in e.elts:
                out |= self._taint(fi, v, st)
            return _box(out)
        if isinstance(e, ast.NamedExpr):
            return self._taint(fi, e.value, st)
        if isinstance(e, ast.Call):
            f = e.func
            if isinstance(f, ast.Attribute) and f.attr in VIEW_METHODS:
                r = self.lk.resolve(fi.module, f.value)
                if r.kind not in ("module", "dep"):
                    return self._taint(fi, f.value, st)
            r = self.lk.resolve(fi.module, f)
            if r.kind == "dep" and r.obj is not None:
                np = deps.import_dep("numpy")
                nm = getattr(r.obj, "__name__", "")
                if nm in NP_VIEW_FUNCS and getattr(np, nm, None) is r.obj and e.args:
                    return self._taint(fi, e.args[0], st)
                if nm == "array" and getattr(np, "array", None) is r.obj:
                    for kw in e.keywords:
                        if kw.arg == "copy" and isinstance(kw.value, ast.Constant) and kw.value.value is False and e.args:
                            return self._taint(fi, e.args[0], st)
                return frozenset()
            out = frozenset()
            for how, callee in self._callees(fi, e):
                s = self.summaries.get(callee.qualname)
                if not s or not s.returns:
                    continue
                amap = self._arg_map(callee, e)
                for p in s.returns:
                    if p in amap:
                        out |= self._taint(fi, amap[p], st)
                    elif p.startswith("[]") and p[2:] in amap:
                        out |= _box(self._taint(fi, amap[p[2:]], st))
            return out
        return frozenset()

    def _callees(self, fi: FuncInfo, call: ast.Call):
        mod = fi.module
        r = self.lk.resolve(mod, call.func)
        out = []
        if r.kind == "func":
            out.append(("direct", r.obj))
        elif r.kind == "local" and isinstance(call.func, ast.Name):
            for q in sorted(self.lk._func_values_of_expr(mod, call.func)):
                if q in self.funcs:
                    out.append(("slot", self.funcs[q]))
        return out

    def _arg_map(self, callee: FuncInfo, call: ast.Call) -> Dict[str, ast.AST]:
        pos = callee.signature.positional
        m = {}
        for i, a in enumerate(call.args):
            if isinstance(a, ast.Starred) or i >= len(pos):
                break
            m[pos[i]] = a
        for kw in call.keywords:
            if kw.arg is not None:
                m[kw.arg] = kw.value
        return m

    # ------------------------------------------------------------------
    def _transfer(self, fi: FuncInfo, n: Node, st, label, events, summary):
        node = n.ast
        if node is None:
            return st
        rec = events is not None

        def emit(kind, roots, where, how):
            if rec:
                for p in sorted(_plain(roots)):
                    events.append(Event(kind, p, where, how))

        def scan_expr(e):
            """write / layout events inside an expression (calls, attribute reads)"""
            for sub in ast.walk(e):
                if isinstance(sub, ast.Call):
                    f = sub.func
                    if isinstance(f, ast.Attribute) and f.attr in MUTATING_METHODS:
                        r = self.lk.resolve(fi.module, f.value)
                        if r.kind not in ("module", "dep", "class"):
                            roots = self._taint(fi, f.value, st)
                            if roots:
                                emit("write", roots, sub, f"in-place method .{f.attr}() on a value that may alias the argument")
                            if r.kind == "global" and rec:
                                events.append(Event("global-write", norm_text(f.value), sub,
                                                    f"in-place method .{f.attr}() on module-level object"))
                    for kw in sub.keywords:
                        if kw.arg == "out":
                            roots = self._taint(fi, kw.value, st)
                            if roots:
                                emit("write", roots, sub, "out= keyword targets a value that may alias the argument")
                        if kw.arg == "order" and isinstance(kw.value, ast.Constant) and kw.value.value in ("K", "A", "F"):
                            roots = frozenset()
                            for a in sub.args:
                                roots |= self._taint(fi, a, st)
                            if isinstance(f, ast.Attribute):
                                roots |= self._taint(fi, f.value, st)
                            if roots:
                                emit("layout", roots, sub, f"order='{kw.value.value}' makes the result depend on the memory layout of the argument")
                    if isinstance(f, ast.Attribute) and f.attr == "astype" and sub.args and isinstance(sub.args[0], ast.Attribute) and sub.args[0].attr == "dtype":
                        # v.astype(a.dtype): a value whose dtype is fixed otherwise (a fitted line, a mean) forced into the dtype of an
                        # argument - an integer-typed argument truncates it
                        to_ = self._dtype_roots(fi, sub.args[0].value, st)
                        from_ = self._dtype_roots(fi, f.value, st)
                        if to_ and (from_ is None or not (set(_unbox(from_)) & set(_unbox(to_)))):
                            emit("dtype", frozenset(_unbox(to_)), sub,
                                 "a value is cast to the dtype of an argument (.astype(arg.dtype)): float-valued results are truncated when that argument is integer typed")
                    r = self.lk.resolve(fi.module, f)
                    if r.kind == "dep" and r.obj is not None:
                        nm = getattr(r.obj, "__name__", "")
                        modn = getattr(r.obj, "__module__", "") or ""
                        if nm in NP_WRITE_ARG0 and sub.args and "numpy" in modn:
                            roots = self._taint(fi, sub.args[0], st)
                            if roots:
                                emit("write", roots, sub, f"np.{nm} writes its first argument")
                        if nm == "full_like" and len(sub.args) >= 2 and "numpy" in modn and not any(kw.arg == "dtype" for kw in sub.keywords):
                            # np.full_like(a, v): an array of a's dtype holding v everywhere - a fractional v is truncated when a is integer typed
                            like_ = self._dtype_roots(fi, sub.args[0], st)
                            if like_ and self._is_float_expr(fi, sub.args[1], self.float_names.get(fi.qualname, set())):
                                emit("dtype", frozenset(_unbox(like_)), sub,
                                     "np.full_like fills an array that inherits the argument's dtype with a float value (an integer argument truncates it)")
                        if nm == "shuffle" and sub.args:
                            roots = self._taint(fi, sub.args[0], st)
                            if roots:
                                emit("write", roots, sub, "shuffle permutes its argument in place")
                        if nm == "frombuffer" and sub.args:
                            roots = self._taint(fi, sub.args[0], st)
                            if roots:
                                emit("layout", roots, sub, "np.frombuffer reads the raw memory of the argument")
                    for how, callee in self._callees(fi, sub):
                        s = self.summaries.get(callee.qualname)
                        if not s:
                            continue
                        amap = self._arg_map(callee, sub)
                        for p, why in s.writes.items():
                            if p in amap:
                                roots = self._taint(fi, amap[p], st)
                                if roots:
                                    emit("write", roots, sub,
                                         f"passed to {callee.qualname}({p}) which writes that parameter ({why})")
                elif isinstance(sub, ast.Attribute) and isinstance(sub.ctx, ast.Load) and sub.attr in LAYOUT_ATTRS:
                    if sub.attr in ("dtype", "itemsize", "nbytes", "view", "byteswap", "tobytes", "tostring", "dump",
                                    "dumps", "tofile", "getfield", "newbyteorder"):
                        # methods: only when called; dtype: only in comparisons / dtype= (handled below)
                        parent = fi.module.parent(sub)
                        called = isinstance(parent, ast.Call) and parent.func is sub
                        if sub.attr == "dtype":
                            if not isinstance(parent, (ast.Compare, ast.keyword)):
                                continue
                        elif sub.attr in ("itemsize", "nbytes"):
                            pass
                        elif not called:
                            continue
                    roots = self._taint(fi, sub.value, st)
                    if roots:
                        emit("layout", roots, sub, f".{sub.attr} reveals the memory layout / dtype of the argument")

        def store_target(t, value_node=None):
            if isinstance(t, (ast.Subscript, ast.Attribute)):
                base = t.value
                roots = self._taint(fi, base, st)
                if roots:
                    emit("write", roots, t, "store into a value that may alias the argument")
                b0 = base
                while isinstance(b0, (ast.Subscript, ast.Attribute)):
                    b0 = b0.value
                if isinstance(b0, ast.Name) and rec:
                    r0 = self.lk.resolve(fi.module, b0)
                    if r0.kind == "global":
                        events.append(Event("global-write", b0.id, t, "store into a module-level object (state kept between calls)"))
                # dtype hazard: store of a float-valued expression into an array that inherits the argument's dtype
                b = base
                while isinstance(b, ast.Subscript):
                    b = b.value
                if isinstance(b, ast.Name) and b.id in self._like and value_node is not None:
                    if self._is_position_expr(fi, value_node):
                        emit("dtype", self._like[b.id], t,
                             "positions (np.arange / argsort / argmax ...) stored into an array that inherits the argument's dtype: a narrow value dtype "
                             "(uint8, int8, bool, float16) cannot hold the positions 0..n-1")
                    elif self._is_float_expr(fi, value_node, self.float_names.get(fi.qualname, set())):
                        emit("dtype", self._like[b.id], t,
                             "float-valued store into an array that inherits the argument's dtype (int64 input truncates)")
                    else:
                        vr = self._dtype_roots(fi, value_node, st) or frozenset()
                        if len(_unbox(vr)) >= 2 and _unbox(self._like[b.id]) <= _unbox(vr):
                            emit("dtype", self._like[b.id], t,
                                 "store of a value computed from several arguments into an array that inherits the dtype of one of them "
                                 "(an integer argument truncates what the others make fractional)")
            elif isinstance(t, (ast.Tuple, ast.List)):
                for e in t.elts:
                    store_target(e, None)
            elif isinstance(t, ast.Starred):
                store_target(t.value, None)

        def bind(t, value, value_taint=None):
            if isinstance(t, ast.Name):
                vt = value_taint if value_taint is not None else self._taint(fi, value, st)
                if vt:
                    st[t.id] = vt
                else:
                    st.pop(t.id, None)
                # dtype-inheriting constructors
                like = self._dtype_roots(fi, value, st) if value is not None else None
                if like:
                    self._like[t.id] = frozenset(like)
                else:
                    self._like.pop(t.id, None)
            elif isinstance(t, (ast.Tuple, ast.List)):
                if value is not None and isinstance(value, (ast.Tuple, ast.List)) and len(value.elts) == len(t.elts):
                    for te, ve in zip(t.elts, value.elts):
                        bind(te, ve)
                else:
                    vt = value_taint if value_taint is not None else self._taint(fi, value, st)
                    for te in t.elts:
                        bind(te, None, _unbox(vt))
            elif isinstance(t, ast.Starred):
                bind(t.value, value, value_taint)

        if n.kind == "for":
            scan_expr(node.iter)
            if label == "iter":
                bind(node.target, None, _unbox(self._taint(fi, node.iter, st)))
                # elements inherit the dtype of what is iterated (through enumerate / zip as well)
                it, tg = node.iter, node.target
                pairs = []
                if isinstance(it, ast.Call) and isinstance(it.func, ast.Name) and it.func.id == "enumerate" and it.args and isinstance(tg, ast.Tuple) and len(tg.elts) == 2:
                    pairs = [(tg.elts[1], it.args[0])]
                elif isinstance(it, ast.Call) and isinstance(it.func, ast.Name) and it.func.id == "zip" and isinstance(tg, ast.Tuple) and len(tg.elts) == len(it.args):
                    pairs = list(zip(tg.elts, it.args))
                else:
                    pairs = [(tg, it)]
                for t_, src_ in pairs:
                    roots_ = self._dtype_roots(fi, src_, st)
                    for nm_ in [x.id for x in ast.walk(t_) if isinstance(x, ast.Name)]:
                        if roots_:
                            self._like[nm_] = frozenset(roots_)
            return st
        if n.kind == "test":
            scan_expr(node)
            return st
        if n.kind == "return":
            if node.value is not None:
                scan_expr(node.value)
                if summary is not None:
                    summary.returns |= set(self._taint(fi, node.value, st))
                    dr = self._dtype_roots(fi, node.value, st)
                    if dr:
                        summary.dtype_returns |= {r_ for r_ in _unbox(dr) if r_ in self.tracked_params.get(fi.qualname, [])}
            return st
        if n.kind == "raise":
            return st
        if isinstance(node, ast.Assign):
            scan_expr(node.value)
            for t in node.targets:
                store_target(t, node.value)
                if isinstance(t, (ast.Subscript, ast.Attribute)):
                    scan_expr(t)
            for t in node.targets:
                bind(t, node.value)
            return st
        if isinstance(node, ast.AugAssign):
            scan_expr(node.value)
            t = node.target
            if isinstance(t, ast.Name):
                roots = st.get(t.id, frozenset())
                if roots:
                    emit("write", roots, node, "augmented assignment updates the argument's array in place")
                # in-place true division (or an in-place operation with a float operand) on an array whose dtype follows an
                # argument: with an integer argument numpy cannot store the float result (UFuncTypeError) - or truncates it
                like = self._like.get(t.id) or (st.get(t.id) if st.get(t.id) else None)
                if like and (isinstance(node.op, ast.Div) or self._is_float_expr(fi, node.value, self.float_names.get(fi.qualname, set()))) \
                        and not isinstance(node.op, (ast.FloorDiv,)):
                    if self._array_valued(fi, t.id):
                        emit("dtype", frozenset(_unbox(like)), node,
                             "in-place float operation on an array that inherits the argument's dtype (an integer argument raises UFuncTypeError / truncates)")
            else:
                store_target(t, node.value)
            return st
        if isinstance(node, ast.AnnAssign):
            if node.value is not None:
                scan_expr(node.value)
                store_target(node.target, node.value)
                bind(node.target, node.value)
            return st
        if isinstance(node, ast.Delete):
            for t in node.targets:
                if isinstance(t, ast.Subscript):
                    roots = self._taint(fi, t.value, st)
                    if roots:
                        emit("write", roots, t, "del on an element of a value that may alias the argument")
                elif isinstance(t, ast.Name):
                    st.pop(t.id, None)
            return st
        if isinstance(node, ast.Expr):
            scan_expr(node.value)
            return st
        if isinstance(node, ast.With):
            for itm in node.items:
                scan_expr(itm.context_expr)
            return st
        return st

    def _dtype_roots(self, fi: FuncInfo, e, st, depth: int = 0) -> Optional[FrozenSet[str]]:
        """Arguments whose dtype the value of `e` inherits: views and copies alike (indexing, *_like, .copy(), np.abs,
        integer arithmetic between such values).  None when the dtype is fixed otherwise (a float literal or division,
        dtype=..., astype, an unknown call)."""
        if e is None or depth > 12:
            return None
        fl = self.float_names.get(fi.qualname, set())
        if isinstance(e, ast.Name):
            r = frozenset(_unbox(st.get(e.id, frozenset()))) | frozenset(self._like.get(e.id, frozenset()))
            return r or None
        if isinstance(e, (ast.Subscript, ast.Starred)):
            return self._dtype_roots(fi, e.value, st, depth + 1)
        if isinstance(e, ast.Attribute) and e.attr in ("T", "real", "flat"):
            return self._dtype_roots(fi, e.value, st, depth + 1)
        if isinstance(e, ast.UnaryOp) and isinstance(e.op, (ast.USub, ast.UAdd)):
            return self._dtype_roots(fi, e.operand, st, depth + 1)
        if isinstance(e, ast.IfExp):
            a, b = self._dtype_roots(fi, e.body, st, depth + 1), self._dtype_roots(fi, e.orelse, st, depth + 1)
            return (a or frozenset()) | (b or frozenset()) or None
        if isinstance(e, ast.BinOp) and isinstance(e.op, (ast.Add, ast.Sub, ast.Mult, ast.FloorDiv, ast.Mod)):
            if self._is_float_expr(fi, e, fl):
                return None
            out = frozenset()
            for side in (e.left, e.right):
                if isinstance(side, ast.Constant) and isinstance(side.value, int) and not isinstance(side.value, bool):
                    continue
                r = self._dtype_roots(fi, side, st, depth + 1)
                if not r:
                    return None            # an operand of unknown dtype: nothing can be said
                out |= r
            return out or None
        if isinstance(e, (ast.Tuple, ast.List)):
            out = frozenset()
            for x in e.elts:
                r = self._dtype_roots(fi, x, st, depth + 1)
                if not r:
                    return None
                out |= r
            return out or None
        if isinstance(e, ast.Call):
            if any(kw.arg == "dtype" for kw in e.keywords):
                return None
            f = e.func
            if isinstance(f, ast.Attribute):
                r0 = self.lk.resolve(fi.module, f.value)
                if r0.kind not in ("module", "dep"):
                    if f.attr in DTYPE_PRESERVING_METHODS:
                        return self._dtype_roots(fi, f.value, st, depth + 1)
                    return None
            r = self.lk.resolve(fi.module, f)
            if r.kind == "dep" and r.obj is not None:
                nm = getattr(r.obj, "__name__", "")
                if nm in DTYPE_PRESERVING_FUNCS and e.args and "numpy" in (getattr(r.obj, "__module__", "") or ""):
                    if nm in ("maximum", "minimum") and len(e.args) >= 2:
                        a, b = self._dtype_roots(fi, e.args[0], st, depth + 1), self._dtype_roots(fi, e.args[1], st, depth + 1)
                        return ((a or frozenset()) | (b or frozenset())) if (a and b) else None
                    return self._dtype_roots(fi, e.args[0], st, depth + 1)
                return None
            # a package function whose result inherits the dtype of some of its parameters
            out = frozenset()
            for _how, callee in self._callees(fi, e):
                sm = self.summaries.get(callee.qualname)
                if not sm or not sm.dtype_returns:
                    return None
                amap = self._arg_map(callee, e)
                for p_ in sm.dtype_returns:
                    if p_ not in amap:
                        return None
                    r_ = self._dtype_roots(fi, amap[p_], st, depth + 1)
                    if not r_:
                        return None
                    out |= r_
            return out or None
        return None

    def _array_valued(self, fi: FuncInfo, name: str) -> bool:
        """A local that is (syntactically) bound to an array-producing expression somewhere in the function: a call or a
        subscript / arithmetic on arrays - not a plain scalar accumulator (`total /= n` on a Python float is fine)."""
        for n in ast.walk(fi.node):
            if isinstance(n, ast.Assign) and any(isinstance(t_, ast.Name) and t_.id == name for t_ in n.targets):
                v = n.value
                if isinstance(v, ast.Call):
                    r = self.lk.resolve(fi.module, v.func)
                    nm = getattr(r.obj, "__name__", "") if r.kind == "dep" else ""
                    if nm in ("sum", "mean", "max", "min", "amax", "amin", "dot", "len", "float", "int", "median"):
                        return False
                    return True
                if isinstance(v, (ast.BinOp, ast.Subscript)):
                    tp = self.lk.expr_type(fi.module, fi.node, v)
                    np_ = deps.import_dep("numpy")
                    return tp is np_.ndarray
        return False

    def _like_roots(self, fi: FuncInfo, value, st) -> Optional[FrozenSet[str]]:
        """Roots whose dtype the value inherits (np.*_like(arg), arg.copy(), np.array(arg) without dtype)."""
        if not isinstance(value, ast.Call):
            return None
        f = value.func
        if any(kw.arg == "dtype" for kw in value.keywords):
            return None
        if isinstance(f, ast.Attribute) and f.attr == "copy":
            r = self.lk.resolve(fi.module, f.value)
            if r.kind not in ("module", "dep"):
                roots = self._taint(fi, f.value, st)
                return roots or None
        r = self.lk.resolve(fi.module, f)
        if r.kind == "dep" and r.obj is not None:
            nm = getattr(r.obj, "__name__", "")
            if nm in LIKE_FUNCS and value.args and "numpy" in (getattr(r.obj, "__module__", "") or ""):
                roots = self._taint(fi, value.args[0], st)
                return roots or None
        return None


DTYPE_PRESERVING_FUNCS = {"abs", "absolute", "negative", "maximum", "minimum", "sort", "unique", "concatenate", "hstack", "vstack", "cumsum", "diff",
                          "copy", "array", "asarray", "empty_like", "zeros_like", "ones_like", "full_like", "take", "flip", "roll", "clip", "sum", "max", "min",
                          "amax", "amin", "squeeze", "ravel", "reshape", "transpose", "append", "delete", "column_stack", "stack"}
DTYPE_PRESERVING_METHODS = {"copy", "max", "min", "sum", "cumsum", "flatten", "ravel", "reshape", "squeeze", "transpose", "take", "clip"}


def _float_valued(e) -> bool:
    """Syntactically certain to be float valued: a true division, a float
    literal, or a call of a float-returning function at the top of the tree."""
    if isinstance(e, ast.Constant):
        return isinstance(e.value, float)
    if isinstance(e, ast.BinOp):
        if isinstance(e.op, ast.Div):
            return True
        return _float_valued(e.left) or _float_valued(e.right)
    if isinstance(e, ast.UnaryOp):
        return _float_valued(e.operand)
    if isinstance(e, ast.Call):
        nm = e.func.attr if isinstance(e.func, ast.Attribute) else (e.func.id if isinstance(e.func, ast.Name) else "")
        return nm in {"sqrt", "mean", "average", "log", "exp", "fabs", "hypot", "float", "median", "std", "var",
                      "divide", "true_divide", "atan", "norm"}
    return False
