"""Fixed-width integer arithmetic: magnitude analysis (abstract interpretation over the syntax tree).

numpy integer scalars and arrays wrap around silently at 64 bits; Python floats and Python ints do not.  A geometric
primitive that multiplies coordinate differences must therefore do so *in floating point* (or keep the integer
intermediate small): with an integer-typed curve every `+ - * **` between integer operands is integer arithmetic.

Abstract value of an expression: (kind, magnitude bound, shape)
    kind   F  float - no wrap-around
           I  may be a numpy integer (fixed width)         P  Python int (arbitrary precision)        U  unknown
    mag    an integer bound on |value| (None: unbounded / unknown)
    shape  sc | pt (a 2-vector) | arr (n values) | pts (n x 2) | None
Sources: array parameters hold integers of magnitude <= 2**29 (coordinates / counts that fit 30 bits, stored as int64);
lengths and positions are < 2**20.  Transfer: F is contagious (`/` always gives F, `**` with a float exponent gives F,
math.* / np.sqrt / np.hypot / np.linalg.norm / np.mean / float() give F); `a + b` adds the bounds, `a * b` multiplies
them, `a ** k` raises to k, sums over a row add 2 terms, sums over a column 2**20.  Package calls are analysed in
context (inlined, depth <= 4).  A finding is an integer-kinded operation whose bound exceeds 2**63 - 1: with inputs in
the stated range the int64 result can wrap.  Unbounded / unknown values are never reported.
"""

from __future__ import annotations

import ast
import builtins
import math
from dataclasses import dataclass
from typing import Any, Dict, List, Optional, Tuple

COORD = 2 ** 29
COUNT = 2 ** 20
LIMIT = 2 ** 63 - 1
RANK = {"sc": 0, "pt": 1, "arr": 2, "pts": 3}


@dataclass(frozen=True)
class V:
    kind: str
    mag: Optional[int] = None
    shape: Optional[str] = None
    items: Optional[tuple] = None          # a tuple / list of values

    def with_shape(self, sh):
        return V(self.kind, self.mag, sh, self.items)


F = V("F")
U = V("U")


def coord(shape: str) -> V:
    return V("I", COORD, shape)


def index(shape: str = "sc") -> V:
    return V("I", COUNT, shape)


def _jk(a: str, b: str) -> str:
    if "U" in (a, b):
        return "U"
    if "I" in (a, b):
        return "I"          # may be an integer on some path
    if "F" in (a, b):
        return "F" if a == b else "I" if "I" in (a, b) else ("P" if False else "F" if {a, b} == {"F"} else "I")
    return "P"


def join(a: V, b: V) -> V:
    if a is None:
        return b
    if b is None:
        return a
    if a.items is not None and b.items is not None and len(a.items) == len(b.items):
        return V("T", None, None, tuple(join(x, y) for x, y in zip(a.items, b.items)))
    ks = {a.kind, b.kind}
    if "U" in ks or "T" in ks:
        return U
    if ks == {"F"}:
        kind = "F"
    elif "I" in ks or ks == {"F", "P"}:
        kind = "I" if "I" in ks else "P"      # (a float-or-python-int value never wraps)
    else:
        kind = "P"
    mag = None if (a.mag is None or b.mag is None) and kind != "F" else (max(a.mag or 0, b.mag or 0) if kind != "F" else None)
    if kind != "F" and (a.kind == "F" or b.kind == "F"):
        mag = a.mag if b.kind == "F" else b.mag
    sh = a.shape if a.shape == b.shape else (a.shape if b.shape is None else (b.shape if a.shape is None else max(a.shape, b.shape, key=lambda s: RANK.get(s, 0))))
    return V(kind, mag, sh)


def _bshape(a: V, b: V):
    if a.shape is None or b.shape is None:
        return a.shape or b.shape
    if {a.shape, b.shape} == {"pt", "arr"}:
        return "pts"
    return max(a.shape, b.shape, key=lambda s: RANK[s])


FLOAT_NP = {"sqrt", "hypot", "fabs", "mean", "average", "median", "std", "var", "divide", "true_divide", "log", "log2", "log10", "exp", "arctan", "arctan2",
            "sin", "cos", "float64", "float32", "float_", "percentile", "corrcoef", "polyfit", "interp", "linspace", "isclose"}
FLOAT_ALLOC = {"zeros", "ones", "empty", "full"}
SAME_NP = {"abs", "absolute", "negative", "maximum", "minimum", "max", "min", "amax", "amin", "sort", "unique", "copy", "array", "asarray", "asanyarray",
           "flip", "take", "squeeze", "ravel", "transpose", "concatenate", "hstack", "vstack", "column_stack", "append", "delete", "clip", "where",
           "zeros_like", "ones_like", "empty_like", "full_like", "round", "rint", "fmax", "fmin", "nanmax", "nanmin", "ascontiguousarray"}
INDEX_NP = {"argmax", "argmin", "argsort", "argwhere", "searchsorted", "arange", "nonzero", "flatnonzero", "count_nonzero", "size"}


class Finding:
    def __init__(self, fi, node, v: V, chain):
        self.fi, self.node, self.v, self.chain = fi, node, v, chain


class Analyzer:
    def __init__(self, repo, linker, max_depth: int = 4):
        self.repo, self.lk, self.max_depth = repo, linker, max_depth
        self.findings: List[Finding] = []
        self.ops_int = 0             # integer-kinded arithmetic nodes seen (evidence)
        self.ops_float = 0
        self.unknown_calls: Dict[str, int] = {}
        self._seen = set()

    # ------------------------------------------------------------------
    def function(self, fi, args: Dict[str, V], chain: Tuple[str, ...] = ()) -> V:
        env: Dict[str, V] = {}
        for p in fi.signature.positional:
            env[p] = args.get(p, U)
        for p, v in args.items():
            env.setdefault(p, v)
        st = _State(self, fi, env, chain + (fi.qualname,))
        st.block(fi.node.body)
        return st.ret if st.ret is not None else U

    def report(self, fi, node, v: V, chain):
        key = (fi.qualname, getattr(node, "lineno", 0), getattr(node, "col_offset", 0))
        if key in self._seen:
            return
        self._seen.add(key)
        self.findings.append(Finding(fi, node, v, chain))


class _State:
    def __init__(self, an: Analyzer, fi, env, chain):
        self.an, self.fi, self.env, self.chain = an, fi, env, chain
        self.ret: Optional[V] = None

    # -- statements -----------------------------------------------------
    def block(self, stmts):
        for st in stmts:
            self.stmt(st)

    def stmt(self, st):
        if isinstance(st, ast.Assign):
            v = self.expr(st.value)
            for t in st.targets:
                self.bind(t, v)
        elif isinstance(st, ast.AnnAssign) and st.value is not None:
            self.bind(st.target, self.expr(st.value))
        elif isinstance(st, ast.AugAssign):
            cur = self.expr(st.target) if isinstance(st.target, ast.Name) else U
            v = self.binop(st.op, cur, self.expr(st.value), st)
            if isinstance(st.target, ast.Name):
                self.env[st.target.id] = v
        elif isinstance(st, ast.Return):
            if st.value is not None:
                self.ret = join(self.ret, self.expr(st.value))
        elif isinstance(st, ast.If):
            self.expr(st.test)
            before = dict(self.env)
            self.block(st.body)
            e1 = self.env
            self.env = dict(before)
            self.block(st.orelse)
            e2 = self.env
            self.env = {k: join(e1.get(k), e2.get(k)) for k in set(e1) | set(e2)}
        elif isinstance(st, (ast.For, ast.While)):
            if isinstance(st, ast.For):
                self.bind(st.target, self.element(self.expr(st.iter), st.iter))
            else:
                self.expr(st.test)
            before = dict(self.env)
            self.block(st.body)
            mid = dict(self.env)
            self.block(st.body)
            for k, v2 in list(self.env.items()):
                v1 = mid.get(k)
                if v1 is not None and v2.kind in ("I", "P") and v1.mag is not None and (v2.mag is None or v2.mag > v1.mag):
                    # grows from one pass to the next: an accumulator - one addend per iteration
                    v0 = before.get(k)
                    if v0 is not None and v0.mag is not None and v2.mag is not None and isinstance(st, ast.For):
                        step = v1.mag - v0.mag if v1.mag >= v0.mag else None
                        self.env[k] = V(v2.kind, None if step is None else v0.mag + COUNT * step, v2.shape)
                        if v2.kind == "I" and self.env[k].mag is not None and self.env[k].mag > LIMIT:
                            self.an.report(self.fi, st, self.env[k], self.chain)
                            self.env[k] = V(v2.kind, None, v2.shape)
                    else:
                        self.env[k] = V(v2.kind, None, v2.shape)
            self.env = {k: join(before.get(k), self.env.get(k)) if k in before else self.env[k] for k in self.env}
            self.block(getattr(st, "orelse", []))
        elif isinstance(st, ast.Expr):
            self.expr(st.value)
        elif isinstance(st, (ast.With,)):
            self.block(st.body)
        elif isinstance(st, ast.Try):
            self.block(st.body)
            for h in st.handlers:
                self.block(h.body)
            self.block(st.orelse)
            self.block(st.finalbody)

    def bind(self, t, v: V):
        if isinstance(t, ast.Name):
            self.env[t.id] = v
        elif isinstance(t, (ast.Tuple, ast.List)):
            n = len(t.elts)
            if v.items is not None and len(v.items) == n:
                parts = list(v.items)
            elif v.shape == "pt" and n == 2:
                parts = [v.with_shape("sc")] * 2
            elif v.shape == "pts":
                parts = [v.with_shape("pt")] * n
            elif v.kind in ("F", "I", "P"):
                parts = [V(v.kind, v.mag, None)] * n
            else:
                parts = [U] * n
            for e, p in zip(t.elts, parts):
                self.bind(e.value if isinstance(e, ast.Starred) else e, p)

    def element(self, v: V, node) -> V:
        if v.items is not None:
            out = None
            for i in v.items:
                out = join(out, i)
            return out or U
        if v.shape == "pts":
            return v.with_shape("pt")
        if v.shape in ("arr", "pt"):
            return v.with_shape("sc")
        return V(v.kind, v.mag, None) if v.kind in ("F", "I", "P") else U

    # -- expressions ------------------------------------------------------
    def expr(self, e) -> V:
        if e is None:
            return U
        if isinstance(e, ast.Constant):
            if isinstance(e.value, bool):
                return V("P", 1, "sc")
            if isinstance(e.value, int):
                return V("P", abs(e.value), "sc")
            if isinstance(e.value, float):
                return V("F", None, "sc")
            return U
        if isinstance(e, ast.Name):
            return self.env.get(e.id, U)
        if isinstance(e, (ast.Tuple, ast.List)):
            items = tuple(self.expr(x) for x in e.elts)
            return V("T", None, None, items)
        if isinstance(e, ast.BinOp):
            return self.binop(e.op, self.expr(e.left), self.expr(e.right), e)
        if isinstance(e, ast.UnaryOp):
            v = self.expr(e.operand)
            return V("P", 1, "sc") if isinstance(e.op, ast.Not) else v
        if isinstance(e, (ast.Compare, ast.BoolOp)):
            for x in ast.iter_child_nodes(e):
                if isinstance(x, ast.expr):
                    self.expr(x)
            return V("P", 1, None)
        if isinstance(e, ast.IfExp):
            self.expr(e.test)
            return join(self.expr(e.body), self.expr(e.orelse))
        if isinstance(e, ast.Subscript):
            return self.subscript(e)
        if isinstance(e, ast.Attribute):
            base = self.expr(e.value) if not self._is_module(e.value) else None
            if base is None:
                r = self.an.lk.resolve(self.fi.module, e)
                if r.kind == "dep" and isinstance(r.obj, float):
                    return V("F", None, "sc")
                return U
            if e.attr == "T":
                return base
            if e.attr in ("eps", "real"):
                return V("F", None, "sc")
            if e.attr in ("size", "ndim"):
                return V("P", COUNT, "sc")
            return U
        if isinstance(e, ast.Call):
            return self.call(e)
        if isinstance(e, (ast.ListComp, ast.GeneratorExp)):
            keep = dict(self.env)
            for g in e.generators:
                self.bind(g.target, self.element(self.expr(g.iter), g.iter))
                for c in g.ifs:
                    self.expr(c)
            v = self.expr(e.elt)
            self.env = keep
            return V(v.kind, v.mag, "arr" if v.shape in ("sc", None) else "pts") if v.kind in ("F", "I", "P") else U
        return U

    def _is_module(self, node) -> bool:
        r = self.an.lk.resolve(self.fi.module, node)
        return r.kind in ("module", "dep") and not isinstance(node, ast.Call)

    def subscript(self, e: ast.Subscript) -> V:
        base = self.expr(e.value)
        sl = e.slice
        if base.items is not None:
            if isinstance(sl, ast.Constant) and isinstance(sl.value, int) and -len(base.items) <= sl.value < len(base.items):
                return base.items[sl.value]
            out = None
            for i in base.items:
                out = join(out, i)
            return out or U
        if base.kind not in ("F", "I", "P"):
            return U
        for x in ast.walk(sl):
            if isinstance(x, ast.expr) and x is not sl:
                pass
        sh = base.shape

        def scalar_index(n) -> bool:
            if isinstance(n, ast.Slice) or (isinstance(n, ast.Constant) and n.value is Ellipsis):
                return False
            v = self.expr(n)
            return v.items is None and v.shape in ("sc", None) and v.kind in ("I", "P")
        if isinstance(sl, ast.Tuple):
            dims = list(sl.elts)
            if sh == "pts" and len(dims) == 2:
                a_sc, b_sc = scalar_index(dims[0]), scalar_index(dims[1])
                new = "sc" if (a_sc and b_sc) else "arr" if b_sc else "pt" if a_sc else "pts"
            elif len(dims) == 2 and isinstance(dims[0], ast.Constant) and dims[0].value is Ellipsis and scalar_index(dims[1]):
                new = {"pts": "arr", "pt": "sc"}.get(sh)
            else:
                new = None
            return V(base.kind, base.mag, new)
        if isinstance(sl, ast.Slice):
            return base
        if scalar_index(sl):
            new = {"pts": "pt", "pt": "sc", "arr": "sc"}.get(sh)
            return V(base.kind, base.mag, new)
        return base            # fancy / boolean indexing keeps the rank

    def binop(self, op, a: V, b: V, node) -> V:
        if a.items is not None or b.items is not None:
            if isinstance(op, ast.Add) and a.items is not None and b.items is not None:
                return V("T", None, None, a.items + b.items)
            return U
        if a.kind == "U" or b.kind == "U":
            if isinstance(op, ast.Div) or "F" in (a.kind, b.kind):
                return V("F", None, _bshape(a, b))
            return U
        sh = _bshape(a, b)
        if isinstance(op, ast.Div) or "F" in (a.kind, b.kind):
            self.an.ops_float += 1
            return V("F", None, sh)
        kind = "I" if "I" in (a.kind, b.kind) else "P"
        ma, mb = a.mag, b.mag
        mag = None
        if isinstance(op, (ast.Add, ast.Sub)):
            mag = ma + mb if ma is not None and mb is not None else None
        elif isinstance(op, ast.Mult):
            mag = ma * mb if ma is not None and mb is not None else None
        elif isinstance(op, ast.Pow):
            k = mb if (b.kind == "P" and mb is not None and isinstance(node, ast.BinOp) and isinstance(node.right, ast.Constant)) else None
            mag = ma ** k if (ma is not None and k is not None and k <= 64) else None
            kind = a.kind if a.kind in ("I", "P") else kind
        elif isinstance(op, ast.FloorDiv):
            mag = ma
        elif isinstance(op, ast.Mod):
            mag = mb
        elif isinstance(op, (ast.BitAnd, ast.BitOr, ast.BitXor)):
            mag = max(ma or 0, mb or 0) if ma is not None and mb is not None else None
        elif isinstance(op, (ast.LShift, ast.RShift)):
            mag = None
        if kind == "I":
            self.an.ops_int += 1
            if mag is not None and mag > LIMIT:
                self.an.report(self.fi, node, V(kind, mag, sh), self.chain)
                mag = None           # reported once, not again for everything computed from it
        return V(kind, mag, sh)

    # -- calls --------------------------------------------------------------
    def call(self, e: ast.Call) -> V:
        args = [self.expr(a.value if isinstance(a, ast.Starred) else a) for a in e.args]
        kws = {k.arg: self.expr(k.value) for k in e.keywords if k.arg}
        f = e.func
        lk = self.an.lk
        # methods of values
        if isinstance(f, ast.Attribute) and not self._is_module(f.value):
            base = self.expr(f.value)
            m = f.attr
            if m == "astype":
                t = ast.unparse(e.args[0]) if e.args else ""
                if "float" in t:
                    return V("F", None, base.shape)
                if "int" in t:
                    return V("I", base.mag, base.shape)
                return U
            if base.kind in ("F", "I", "P") and base.items is None:
                if m in ("copy", "flatten", "ravel", "reshape", "squeeze", "transpose", "tolist", "view", "clip", "round"):
                    return base
                if m in ("max", "min"):
                    return V(base.kind, base.mag, self._reduce_shape(base, e, kws))
                if m in ("sum", "cumsum", "dot", "prod", "mean", "std", "var"):
                    return self._np(m, [base] + args, kws, e)
                if m in ("argmax", "argmin", "argsort", "nonzero", "searchsorted"):
                    return index("arr" if m in ("argsort", "nonzero") else "sc")
            return U
        r = lk.resolve(self.fi.module, f)
        if r.kind == "func" and r.obj is not None:
            callee = r.obj
            if len(self.chain) >= self.an.max_depth or callee.qualname in self.chain:
                return U
            amap: Dict[str, V] = {}
            pos = callee.signature.positional
            for i, a in enumerate(args):
                if i < len(pos):
                    amap[pos[i]] = a
            for k, v in kws.items():
                amap[k] = v
            for p in pos:
                if p not in amap:
                    d = callee.param_default(p)
                    if d is not None:
                        amap[p] = _State(self.an, callee, {}, self.chain).expr(d) if isinstance(d, ast.Constant) else U
            return self.an.function(callee, amap, self.chain)
        if r.kind == "dep" and r.obj is not None:
            nm = getattr(r.obj, "__name__", "") or ""
            modn = getattr(r.obj, "__module__", "") or ""
            if r.obj in (builtins.abs,):
                return args[0] if args else U
            if r.obj in (builtins.min, builtins.max):
                out = None
                for a in (args if len(args) > 1 else [self.element(args[0], None)] if args else []):
                    out = join(out, a if a.items is None else self.element(a, None))
                return out or U
            if r.obj is builtins.float:
                return V("F", None, "sc")
            if r.obj is builtins.int:
                return V("P", args[0].mag if args and args[0].kind in ("I", "P") else None, "sc")
            if r.obj is builtins.round:
                return V("P", args[0].mag if args and args[0].kind in ("I", "P") else None, "sc") if len(args) == 1 else (args[0] if args else U)
            if r.obj is builtins.len:
                return V("P", COUNT, "sc")
            if r.obj is builtins.range:
                return V("P", COUNT, "arr")
            if r.obj in (builtins.list, builtins.tuple, builtins.sorted, builtins.reversed):
                return args[0] if args else V("T", None, None, ())
            if r.obj is builtins.sum:
                return self._np("sum", args, kws, e)
            if r.obj in (builtins.enumerate,):
                return V("T", None, None, (V("P", COUNT, "sc"), self.element(args[0], None))) if args else U
            if r.obj is builtins.zip:
                return V("T", None, None, tuple(self.element(a, None) for a in args))
            if modn == "math" or r.obj in vars(math).values():
                if nm in ("ceil", "floor", "trunc"):
                    return V("P", args[0].mag if args and args[0].kind in ("I", "P") else None, "sc")
                if nm in ("isclose", "isnan", "isinf", "isfinite"):
                    return V("P", 1, "sc")
                return V("F", None, "sc")
            if "numpy" in modn or modn == "" and nm in FLOAT_NP | SAME_NP | INDEX_NP:
                return self._np(nm, args, kws, e)
        key = ast.unparse(f)
        self.an.unknown_calls[key] = self.an.unknown_calls.get(key, 0) + 1
        return U

    def _reduce_shape(self, a: V, e: ast.Call, kws) -> Optional[str]:
        axis = None
        for k in e.keywords:
            if k.arg == "axis" and isinstance(k.value, ast.Constant):
                axis = k.value.value
        if a.shape == "pts":
            return "arr" if axis == 1 else "pt" if axis == 0 else "sc"
        if a.shape in ("arr", "pt"):
            return "sc"
        return None

    def _terms(self, a: V, e: ast.Call) -> int:
        axis = None
        for k in e.keywords:
            if k.arg == "axis" and isinstance(k.value, ast.Constant):
                axis = k.value.value
        if a.shape == "pt":
            return 2
        if a.shape == "pts":
            return 2 if axis == 1 else COUNT if axis == 0 else 2 * COUNT
        if a.shape == "sc":
            return 1
        return COUNT

    def _np(self, nm: str, args: List[V], kws, e: ast.Call) -> V:
        a0 = args[0] if args else U
        if a0.items is not None and nm in SAME_NP | {"sum", "dot", "cross", "linalg.norm", "norm"} | FLOAT_NP:
            # a literal list / tuple of values: np.array([x, y]) is a 2-vector, longer ones a vector
            j = None
            for i in a0.items:
                j = join(j, i if i.items is None else self.element(i, None))
            j = j or U
            inner = [i.shape for i in a0.items]
            sh = "pt" if (len(a0.items) == 2 and all(s in ("sc", None) for s in inner)) else "pts" if all(s in ("pt", "arr") for s in inner) else "arr"
            a0 = V(j.kind, j.mag, sh) if j.kind in ("F", "I", "P") else U
            args = [a0] + list(args[1:])
        if any(k.arg == "dtype" for k in e.keywords):
            t = ast.unparse([k.value for k in e.keywords if k.arg == "dtype"][0])
            if "float" in t:
                return V("F", None, a0.shape)
            if "int" in t and a0.kind in ("I", "P", "F"):
                return V("I", a0.mag, a0.shape)
        if nm in FLOAT_NP or nm == "norm":
            sh = a0.shape
            if nm in ("mean", "average", "median", "std", "var", "norm", "percentile"):
                sh = self._reduce_shape(a0, e, kws)
            return V("F", None, sh)
        if nm in FLOAT_ALLOC:
            return V("F", None, "arr")
        if nm in INDEX_NP:
            return index("sc" if nm in ("argmax", "argmin", "searchsorted", "count_nonzero", "size") else "arr")
        if a0.kind == "U":
            return U
        if nm in SAME_NP:
            out = a0
            if nm in ("maximum", "minimum", "fmax", "fmin", "append", "concatenate", "hstack", "vstack", "column_stack", "where", "clip"):
                for b in args[1:]:
                    if b.items is None and b.kind in ("F", "I", "P"):
                        out = join(out, b)
            if nm in ("max", "min", "amax", "amin", "nanmax", "nanmin"):
                return V(out.kind, out.mag, self._reduce_shape(out, e, kws))
            return out
        if a0.kind == "F" or any(b.kind == "F" for b in args[1:2]) and nm in ("dot", "cross", "multiply", "add", "subtract", "power"):
            self.an.ops_float += 1
            return V("F", None, a0.shape if nm not in ("dot", "sum") else self._reduce_shape(a0, e, kws))
        if a0.kind not in ("I", "P"):
            return U
        b = args[1] if len(args) > 1 else None
        kind = "I"
        mag = None
        sh = a0.shape
        if nm in ("sum", "nansum"):
            t = self._terms(a0, e)
            mag = a0.mag * t if a0.mag is not None else None
            sh = self._reduce_shape(a0, e, kws)
        elif nm == "cumsum":
            mag = a0.mag * COUNT if a0.mag is not None else None
        elif nm == "diff":
            mag = 2 * a0.mag if a0.mag is not None else None
        elif nm == "square":
            mag = a0.mag ** 2 if a0.mag is not None else None
        elif nm == "power" and b is not None:
            k = b.mag if (b.kind == "P" and len(e.args) > 1 and isinstance(e.args[1], ast.Constant)) else None
            if b.kind == "F":
                return V("F", None, sh)
            mag = a0.mag ** k if (a0.mag is not None and k is not None and k <= 64) else None
        elif nm in ("multiply",) and b is not None and b.kind in ("I", "P"):
            mag = a0.mag * b.mag if a0.mag is not None and b.mag is not None else None
            sh = _bshape(a0, b)
        elif nm in ("add", "subtract") and b is not None and b.kind in ("I", "P"):
            mag = a0.mag + b.mag if a0.mag is not None and b.mag is not None else None
            sh = _bshape(a0, b)
        elif nm in ("dot", "inner", "vdot") and b is not None and b.kind in ("I", "P"):
            t = 2 if "pt" in (a0.shape, b.shape) or "pts" in (a0.shape, b.shape) else COUNT
            mag = a0.mag * b.mag * t if a0.mag is not None and b.mag is not None else None
            sh = "arr" if "pts" in (a0.shape, b.shape) else "sc"
        elif nm == "cross" and b is not None and b.kind in ("I", "P"):
            mag = 2 * a0.mag * b.mag if a0.mag is not None and b.mag is not None else None
            sh = "arr" if "pts" in (a0.shape, b.shape) else "sc"
        elif nm == "prod":
            mag = None
        else:
            key = "np." + nm
            self.an.unknown_calls[key] = self.an.unknown_calls.get(key, 0) + 1
            return U
        self.an.ops_int += 1
        if mag is not None and mag > LIMIT:
            self.an.report(self.fi, e, V(kind, mag, sh), self.chain)
            mag = None
        return V(kind, mag, sh)
