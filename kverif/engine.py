"""Shared context handed to every rule module."""

from __future__ import annotations

import os

from . import repo_root
from .model import Repo
from .report import Result


class Context:
    def __init__(self, prop: str, tier: str, seed: int, root: str = None, flatten: bool = False):
        self.flattened = {}
        self.prop = prop
        self.tier = tier
        self.seed = seed
        self.root = root or repo_root()
        # C20 links every call site in the repository; the other properties only need the demos (pipelines, slots)
        self.repo = Repo(self.root, with_clients="all" if (prop == "C20" or tier == "thorough") else ("demos",))
        if flatten:
            from .flatten import flatten_repo
            self.flattened = flatten_repo(self.repo)
        self.result = Result(prop, tier, seed)
        self.result.analysed = {
            "repo": self.root,
            "digest": self.repo.digest(),
            "modules": sorted(m.short for m in self.repo.modules.values()),
            "functions": len(self.repo.all_functions()),
            "client_files": len(self.repo.clients),
        }
        self._linker = None

    @property
    def linker(self):
        if self._linker is None:
            from .linker import Linker
            self._linker = Linker(self.repo)
        return self._linker

    @property
    def thorough(self) -> bool:
        return self.tier == "thorough"
