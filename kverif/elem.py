"""Element view of array-valued normal forms.

A function may build its result one element at a time (a summarised loop: a generator block) or for all
positions at once (element-wise numpy arithmetic over takes, slices and first differences).  Both denote the
same array exactly when they have the same length and the same element at every position j.  ``element``
computes that element as a scalar normal form; ``simplify`` pushes positions inward:

    take(a, idx)[j]      = a[idx[j]]
    take(a, vec(..))[c]  = a[vec_c]
    np.diff(a)[j]        = a[j+1] - a[j]
    slice(a, lo, hi)[j]  = a[lo+j]            (lo not counted from the end, j not counted from the end)
    f(u, v, ..)[j]       = f(u[j], v[j], ..)   for the element-wise functions abs, sqrt, log, exp, pow

Anything else stays an opaque ``at(<array>, j)`` atom, which the caller's comparison then reports as not
interpreted (inconclusive), never as a difference.
"""

from __future__ import annotations

from fractions import Fraction
from typing import Callable, Optional

from . import anf
from .anf import Atom, Rat

ELEMENTWISE = {"abs", "sqrt", "log", "exp", "pow"}


class NoElement(Exception):
    pass


rewrite = anf.rewrite_atoms


def _single(r: Rat) -> Optional[Atom]:
    ats = r.atoms()
    if len(ats) == 1 and r.equals(Rat.from_atom(ats[0])):
        return ats[0]
    return None


def _index(arr: Rat, j: Rat) -> Rat:
    """arr[j] with the position pushed inward as far as the forms above allow."""
    a = _single(arr)
    if a is None:
        if arr.is_array():
            return element(arr, j)
        return anf.opaque("at", arr, j, array=False)
    if a.kind == "fn":
        if a.name == "vec":
            c = j.is_const()
            if c is not None and Fraction(c).denominator == 1 and -len(a.args) <= int(c) < len(a.args):
                return a.args[int(c)]
        if a.name == "take" and len(a.args) == 2:
            return _index(a.args[0], _index(a.args[1], j))
        if a.name in ("np.diff", "diff") and len(a.args) == 1:
            cj = j.is_const()
            if cj is None or cj >= 0:
                return _index(a.args[0], j.add(Rat.const(1))).sub(_index(a.args[0], j))
        if a.name == "slice" and len(a.args) == 3:
            lo = a.args[1]
            cl, cj = lo.is_const(), j.is_const()
            if (cl is None or cl >= 0) and (cj is None or cj >= 0):
                return _index(a.args[0], lo.add(j))
        if a.name in ELEMENTWISE and a.array:
            return anf.apply_fn(a.name, tuple(element(x, j) if x.is_array() else x for x in a.args), False, a.extra)
    return anf.opaque("at", arr, j, array=False)


def simplify(r: Rat) -> Rat:
    def fn(a_: Atom) -> Optional[Rat]:
        if a_.kind == "fn" and a_.name == "at" and len(a_.args) == 2:
            out = _index(a_.args[0], a_.args[1])
            if not out.equals(Rat.from_atom(a_)):
                return out
        return None
    return rewrite(r, fn)


def element(r: Rat, j: Rat) -> Rat:
    """The element at position j of an array-valued normal form (scalars broadcast)."""
    if not r.is_array():
        return r

    def fn(a_: Atom) -> Optional[Rat]:
        if a_.array:
            return _index(Rat.from_atom(a_), j)
        return None

    def poly(p) -> Rat:
        acc = Rat.const(0)
        for m, c in p.items():
            term = Rat.const(c)
            for a_, e_ in m:
                base = fn(a_) if a_.array else Rat.from_atom(a_)
                term = term.mul(base.pow(e_))
            acc = acc.add(term)
        return acc
    return poly(r.num).div(poly(r.den))


def element_of_value(ev, v, j: Rat):
    """(element at j, length) of a value returned by a whole-function evaluation: an element-wise array expression,
    or a list / array built by one summarised loop (a single unconditional generator block from position 0)."""
    from .gvn import Vec
    from .seqdom import Gen, flatten, subst_value
    from .guards import TRUE
    if isinstance(v, Rat):
        if not v.is_array():
            raise NoElement("the value is a scalar")
        try:
            ln = ev.length_of(v)
        except Exception as e:
            raise NoElement(f"no length for the array expression: {e}")
        return simplify(element(v, j)), ln
    if isinstance(v, Vec) and v.kind == "list":
        items = flatten(v.items)
        if len(items) == 1 and isinstance(items[0], Gen):
            g = items[0]
            if g.ranged and g.lo is not None and g.lo.is_zero() and g.step is not None and g.step.is_const() == 1 and len(g.parts) == 1:
                guard, val, splice = g.parts[0]
                if guard.kind != "true":
                    # a condition that holds whenever the block has an element at all (`if len(knees) == 0: return ..` in front of the
                    # loop) does not make the element conditional
                    from .guards import g_implies, canon_sign, OPS
                    if g_implies(canon_sign(g.hi.sub(g.lo), OPS[">"]), guard):
                        guard = TRUE
                if guard.kind == "true" and not splice and isinstance(val, Rat):
                    return simplify(val.subst({g.var: j})), g.hi
        raise NoElement("the list is not one unconditional generator block from position 0")
    raise NoElement(f"no element view for {type(v).__name__}")
