"""E4 -- algebraic normal form.

Exact multivariate rational functions over Fraction with opaque atoms
(abs, sqrt, log, max, min, Sum, ...) whose arguments are kept canonical.
Equality of two values is decided by cross-multiplication of the polynomial
parts: exact and complete for rational functions, sound (never claims equality
wrongly) but incomplete across opaque atoms.

No solver, no sampling: the decision is equality of canonical forms.
"""

from __future__ import annotations

from fractions import Fraction
from math import gcd, isqrt
from typing import Callable, Dict, Iterable, List, Optional, Sequence, Tuple

Number = Fraction


# --------------------------------------------------------------------------
# atoms
# --------------------------------------------------------------------------

class Atom:
    __slots__ = ("kind", "name", "args", "key", "skey", "array", "extra")

    def __init__(self, kind: str, name: str, args: Tuple["Rat", ...] = (), array: bool = False, extra=None):
        self.kind = kind          # sym | fn
        self.name = name
        self.args = args
        self.array = array        # element-wise array valued?
        self.extra = extra
        self.key = (kind, name, tuple(a.key for a in args), extra)
        self.skey = repr(self.key)

    def __hash__(self):
        return hash(self.skey)

    def __eq__(self, other):
        return isinstance(other, Atom) and self.skey == other.skey

    def __lt__(self, other):
        return self.skey < other.skey

    def __repr__(self):
        if self.kind == "sym":
            return self.name
        return f"{self.name}({', '.join(map(str, self.args))})"


def sym(name: str, array: bool = False) -> "Rat":
    return Rat.from_atom(Atom("sym", name, (), array))


Mono = Tuple[Tuple[Atom, int], ...]
Poly = Dict[Mono, Fraction]

NONNEG_FNS = {"abs", "sqrt", "len", "exp"}
NONNEG_SYMS = set()      # symbol names declared non-negative (e.g. N, len)


def atom_nonneg(a: Atom) -> bool:
    if a.kind == "sym":
        return a.name in NONNEG_SYMS or a.name == "N"
    if a.name in NONNEG_FNS:
        return True
    if a.name == "Sum":
        return a.args[0].is_nonneg()
    if a.name == "max":
        return any(x.is_nonneg() for x in a.args)
    if a.name == "min":
        return all(x.is_nonneg() for x in a.args)
    if a.name == "at":
        return a.args[0].is_nonneg()
    return False


# --------------------------------------------------------------------------
# polynomials
# --------------------------------------------------------------------------

def _mono_mul(a: Mono, b: Mono) -> Mono:
    d: Dict[Atom, int] = {}
    for at, e in a:
        d[at] = d.get(at, 0) + e
    for at, e in b:
        d[at] = d.get(at, 0) + e
    return tuple(sorted(((at, e) for at, e in d.items() if e != 0), key=lambda t: t[0].skey))


def _mono_key(m: Mono):
    return tuple((at.skey, e) for at, e in m)


def p_const(c) -> Poly:
    c = Fraction(c)
    return {(): c} if c != 0 else {}


def p_add(a: Poly, b: Poly, sb: Fraction = Fraction(1)) -> Poly:
    out = dict(a)
    for m, c in b.items():
        v = out.get(m, 0) + c * sb
        if v == 0:
            out.pop(m, None)
        else:
            out[m] = v
    return out


def p_scale(a: Poly, c: Fraction) -> Poly:
    if c == 0:
        return {}
    return {m: v * c for m, v in a.items()}


def p_mul(a: Poly, b: Poly) -> Poly:
    out: Poly = {}
    for m1, c1 in a.items():
        for m2, c2 in b.items():
            m = _mono_mul(m1, m2)
            v = out.get(m, 0) + c1 * c2
            if v == 0:
                out.pop(m, None)
            else:
                out[m] = v
    return out


def p_is_const(a: Poly) -> Optional[Fraction]:
    if not a:
        return Fraction(0)
    if len(a) == 1 and () in a:
        return a[()]
    return None


def p_sorted_items(a: Poly):
    return sorted(a.items(), key=lambda kv: _mono_key(kv[0]))


def _mono_cmp(m1: Mono, m2: Mono) -> int:
    """Graded lexicographic monomial order (variables ordered by atom key)."""
    d1 = sum(e for _a, e in m1)
    d2 = sum(e for _a, e in m2)
    if d1 != d2:
        return -1 if d1 < d2 else 1
    i = j = 0
    while i < len(m1) or j < len(m2):
        if i < len(m1) and j < len(m2):
            a1, e1 = m1[i]
            a2, e2 = m2[j]
            if a1.skey == a2.skey:
                if e1 != e2:
                    return -1 if e1 < e2 else 1
                i += 1
                j += 1
            elif a1.skey < a2.skey:
                return 1        # m1 has a positive exponent on an earlier variable
            else:
                return -1
        elif i < len(m1):
            return 1
        else:
            return -1
    return 0


import functools as _ft

_MONO_ORDER = _ft.cmp_to_key(_mono_cmp)


def p_lead(a: Poly):
    """Leading term under the graded-lex monomial order."""
    return max(a.items(), key=lambda kv: _MONO_ORDER(kv[0]))


def p_key(a: Poly):
    return tuple((_mono_key(m), str(c)) for m, c in p_sorted_items(a))


def _simple_nonneg(a: Poly) -> bool:
    for m, c in a.items():
        if c < 0:
            return False
        for at, e in m:
            if e % 2 == 1 and not atom_nonneg(at):
                return False
    return True


def p_nonneg(a: Poly) -> bool:
    """Sufficient test: positive coefficients over non-negative factors, or a
    sum of such terms and perfect squares (connected components by shared atoms)."""
    if _simple_nonneg(a):
        return True
    if len(a) > 64:
        return False
    # connected components of monomials sharing an atom
    items = list(a.items())
    parent = list(range(len(items)))

    def find(i):
        while parent[i] != i:
            parent[i] = parent[parent[i]]
            i = parent[i]
        return i
    owner: Dict[str, int] = {}
    for i, (m, _c) in enumerate(items):
        for at, _e in m:
            if at.skey in owner:
                ra, rb = find(owner[at.skey]), find(i)
                parent[ra] = rb
            else:
                owner[at.skey] = i
    comps: Dict[int, Poly] = {}
    for i, (m, c) in enumerate(items):
        comps.setdefault(find(i), {})[m] = c
    for comp in comps.values():
        if _simple_nonneg(comp):
            continue
        lm, lc = p_lead(comp)
        if lc <= 0:
            return False
        if _poly_sqrt(p_scale(comp, 1 / lc)) is None:
            return False
    return True


def _needs_rebuild(p: Poly) -> bool:
    for m in p:
        nsq = nab = 0
        for at, e in m:
            if at.kind == "fn" and at.name == "sqrt":
                if e >= 2:
                    return True
                nsq += 1
            elif at.kind == "fn" and at.name == "abs":
                if e >= 2:
                    return True
                nab += 1
        if nsq >= 2 or nab >= 2:
            return True
    return False


def _rebuild(p: Poly) -> "Rat":
    """sqrt(A)^2 -> A, abs(A)^2 -> A^2, sqrt(A)sqrt(B) -> sqrt(AB), abs(A)abs(B) -> abs(AB)."""
    acc = Rat.const(0)
    for m, c in p.items():
        term = Rat.const(c)
        sq_inside = None
        ab_inside = None
        for at, e in m:
            if at.kind == "fn" and at.name == "sqrt":
                k, r = divmod(e, 2)
                if k:
                    term = term.mul(at.args[0].pow(k))
                if r:
                    sq_inside = at.args[0] if sq_inside is None else sq_inside.mul(at.args[0])
            elif at.kind == "fn" and at.name == "abs":
                k, r = divmod(e, 2)
                if k:
                    term = term.mul(at.args[0].pow(2 * k))
                if r:
                    ab_inside = at.args[0] if ab_inside is None else ab_inside.mul(at.args[0])
            else:
                term = term.mul(Rat({((at, e),): Fraction(1)}, None, _normal=True))
        if sq_inside is not None:
            term = term.mul(f_sqrt(sq_inside))
        if ab_inside is not None:
            term = term.mul(f_abs(ab_inside))
        acc = acc.add(term)
    return acc


def p_try_divide(a: Poly, b: Poly) -> Optional[Poly]:
    """Exact multivariate division a / b (None when b does not divide a)."""
    if not b:
        return None
    cb = p_is_const(b)
    if cb is not None:
        return p_scale(a, 1 / cb)
    q: Poly = {}
    r = dict(a)
    lb_m, lb_c = p_lead(b)
    lb = dict(lb_m)
    steps = 0
    while r:
        steps += 1
        if steps > 400:
            return None
        lm, lc = p_lead(r)
        d = dict(lm)
        ok = True
        for at, e in lb.items():
            if d.get(at, 0) < e:
                ok = False
                break
        if not ok:
            return None
        qm = tuple(sorted(((at, d[at] - lb.get(at, 0)) for at in d if d[at] - lb.get(at, 0) != 0),
                          key=lambda t: t[0].skey))
        qc = lc / lb_c
        q = p_add(q, {qm: qc})
        r = p_add(r, p_mul({qm: qc}, b), Fraction(-1))
    return q


# --------------------------------------------------------------------------
# rational functions
# --------------------------------------------------------------------------

class Rat:
    __slots__ = ("num", "den", "key", "_hash")

    def __init__(self, num: Poly, den: Optional[Poly] = None, _normal=False):
        if den is None:
            den = {(): Fraction(1)}
        if not den:
            raise ZeroDivisionError("division by the zero polynomial")
        if not _normal:
            num, den = _normalise(num, den)
        self.num = num
        self.den = den
        self.key = (p_key(num), p_key(den))
        self._hash = hash(self.key)

    # constructors -----------------------------------------------------------
    @staticmethod
    def const(c) -> "Rat":
        return Rat(p_const(c))

    @staticmethod
    def from_atom(a: Atom) -> "Rat":
        return Rat({((a, 1),): Fraction(1)})

    # predicates -------------------------------------------------------------
    def __hash__(self):
        return self._hash

    def __eq__(self, other):
        return isinstance(other, Rat) and self.equals(other)

    def equals(self, other: "Rat") -> bool:
        if self.key == other.key:
            return True
        return self.sub(other).is_zero()

    def is_const(self) -> Optional[Fraction]:
        cd = p_is_const(self.den)
        cn = p_is_const(self.num)
        if cd is not None and cn is not None:
            return cn / cd
        return None

    def is_zero(self) -> bool:
        return not self.num

    def is_nonneg(self) -> bool:
        return p_nonneg(self.num) and p_nonneg(self.den)

    def is_array(self) -> bool:
        return any(at.array for at in self.atoms())

    def atoms(self) -> List[Atom]:
        seen = {}
        for p in (self.num, self.den):
            for m in p:
                for at, _e in m:
                    seen[at.skey] = at
        return list(seen.values())

    def all_atoms(self) -> List[Atom]:
        """Atoms at every nesting depth."""
        out = {}
        stack = list(self.atoms())
        while stack:
            a = stack.pop()
            if a.skey in out:
                continue
            out[a.skey] = a
            for r in a.args:
                stack.extend(r.atoms())
        return list(out.values())

    def symbols(self) -> set:
        return {a.name for a in self.all_atoms() if a.kind == "sym"}

    # arithmetic -------------------------------------------------------------
    def add(self, o: "Rat") -> "Rat":
        if self.den == o.den:
            return Rat(p_add(self.num, o.num), self.den)
        return Rat(p_add(p_mul(self.num, o.den), p_mul(o.num, self.den)), p_mul(self.den, o.den))

    def neg(self) -> "Rat":
        return Rat(p_scale(self.num, Fraction(-1)), self.den, _normal=False)

    def sub(self, o: "Rat") -> "Rat":
        return self.add(o.neg())

    def mul(self, o: "Rat") -> "Rat":
        return Rat(p_mul(self.num, o.num), p_mul(self.den, o.den))

    def inv(self) -> "Rat":
        if not self.num:
            raise ZeroDivisionError("inverse of zero")
        return Rat(self.den, self.num)

    def div(self, o: "Rat") -> "Rat":
        return self.mul(o.inv())

    def pow(self, k: int) -> "Rat":
        if k == 0:
            return Rat.const(1)
        if k < 0:
            return self.inv().pow(-k)
        out = Rat.const(1)
        base = self
        while k:
            if k & 1:
                out = out.mul(base)
            k >>= 1
            if k:
                base = base.mul(base)
        return out

    __add__ = add
    __sub__ = sub
    __mul__ = mul
    __truediv__ = div
    __neg__ = neg

    def subst(self, mapping: Dict[str, "Rat"]) -> "Rat":
        """Substitute symbols (by name) everywhere, re-normalising on the way up."""
        def sub_poly(p: Poly) -> "Rat":
            acc = Rat.const(0)
            for m, c in p.items():
                term = Rat.const(c)
                for at, e in m:
                    term = term.mul(sub_atom(at).pow(e))
                acc = acc.add(term)
            return acc

        def sub_atom(at: Atom) -> "Rat":
            if at.kind == "sym":
                return mapping.get(at.name, Rat.from_atom(at))
            args = tuple(a.subst(mapping) for a in at.args)
            return apply_fn(at.name, args, at.array, at.extra)
        return sub_poly(self.num).div(sub_poly(self.den))

    # printing ---------------------------------------------------------------
    def __repr__(self):
        def ps(p: Poly) -> str:
            if not p:
                return "0"
            parts = []
            for m, c in p_sorted_items(p):
                f = []
                for at, e in m:
                    f.append(str(at) if e == 1 else f"{at}^{e}")
                s = "*".join(f)
                if not s:
                    parts.append(str(c))
                elif c == 1:
                    parts.append(s)
                elif c == -1:
                    parts.append("-" + s)
                else:
                    parts.append(f"{c}*{s}")
            return " + ".join(parts).replace("+ -", "- ")
        n = ps(self.num)
        if p_is_const(self.den) == 1:
            return n
        return f"({n})/({ps(self.den)})"


def _normalise(num: Poly, den: Poly) -> Tuple[Poly, Poly]:
    if not den:
        raise ZeroDivisionError("division by the zero polynomial")
    if not num:
        return {}, {(): Fraction(1)}
    if _needs_rebuild(num) or _needs_rebuild(den):
        r = _rebuild(num).div(_rebuild(den))
        return r.num, r.den
    cd = p_is_const(den)
    if cd is not None:
        return p_scale(num, 1 / cd), {(): Fraction(1)}
    # cancel the monomial gcd
    common: Optional[Dict[Atom, int]] = None
    for p in (num, den):
        for m in p:
            d = dict(m)
            if common is None:
                common = dict(d)
            else:
                for at in list(common):
                    e = min(common[at], d.get(at, 0))
                    if e <= 0:
                        del common[at]
                    else:
                        common[at] = e
            if not common:
                break
        if common is not None and not common:
            break
    if common:
        def strip(p: Poly) -> Poly:
            out = {}
            for m, c in p.items():
                d = dict(m)
                nm = tuple(sorted(((at, d[at] - common.get(at, 0)) for at in d if d[at] - common.get(at, 0) != 0),
                                  key=lambda t: t[0].skey))
                out[nm] = c
            return out
        num, den = strip(num), strip(den)
        cd = p_is_const(den)
        if cd is not None:
            return p_scale(num, 1 / cd), {(): Fraction(1)}
    # abs(P)/abs(A) -> abs(P/A), sqrt(P)/sqrt(A) -> sqrt(P/A) when the division is exact
    if len(num) == 1 and len(den) == 1:
        (nm, nc), = num.items()
        (dm, dc), = den.items()
        for kind in ("abs", "sqrt"):
            an = [(a, e) for a, e in nm if a.kind == "fn" and a.name == kind and e == 1]
            ad = [(a, e) for a, e in dm if a.kind == "fn" and a.name == kind and e == 1]
            if len(an) == 1 and len(ad) == 1:
                Pn, Pd = an[0][0].args[0], ad[0][0].args[0]
                if p_is_const(Pn.den) is not None and p_is_const(Pd.den) is not None:
                    fn = f_abs if kind == "abs" else f_sqrt
                    q = p_try_divide(Pn.num, Pd.num)
                    rest_n = Rat({tuple(x for x in nm if x[0] is not an[0][0]): nc}, None, _normal=True)
                    rest_d = Rat({tuple(x for x in dm if x[0] is not ad[0][0]): dc}, None, _normal=True)
                    if q is not None:
                        scale = Rat.const(1 / (p_is_const(Pn.den) / p_is_const(Pd.den)))
                        r = rest_n.mul(fn(Rat(q).mul(scale))).div(rest_d)
                        return r.num, r.den
                    q = p_try_divide(Pd.num, Pn.num)
                    if q is not None:
                        scale = Rat.const(1 / (p_is_const(Pd.den) / p_is_const(Pn.den)))
                        r = rest_n.div(rest_d.mul(fn(Rat(q).mul(scale))))
                        return r.num, r.den
    # exact division in either direction
    if len(den) > 1:
        q = p_try_divide(num, den)
        if q is not None:
            return q, {(): Fraction(1)}
    if len(num) > 1 or len(den) > 1:
        q = p_try_divide(den, num)
        if q is not None and q:
            cq = p_is_const(q)
            if cq is not None:
                return {(): 1 / cq}, {(): Fraction(1)}
            num, den = {(): Fraction(1)}, q
    # make the leading coefficient of the denominator 1
    _lm, lc = p_lead(den)
    if lc != 1:
        num = p_scale(num, 1 / lc)
        den = p_scale(den, 1 / lc)
    return num, den


# --------------------------------------------------------------------------
# opaque functions with canonical arguments
# --------------------------------------------------------------------------

def _content_sign(p: Poly) -> Tuple[Fraction, Poly]:
    """p = c * p' with p' primitive-ish (leading coefficient 1 after sorting)."""
    if not p:
        return Fraction(0), {}
    _m, c = p_lead(p)
    return c, p_scale(p, 1 / c)


def _fn_atom(name: str, args: Tuple[Rat, ...], array: Optional[bool] = None, extra=None) -> Rat:
    arr = any(a.is_array() for a in args) if array is None else array
    return Rat.from_atom(Atom("fn", name, args, arr, extra))


def f_abs(r: Rat) -> Rat:
    def abs_poly(p: Poly) -> Rat:
        if not p:
            return Rat.const(0)
        if p_nonneg(p):
            return Rat(p)
        if len(p) == 1:
            (m, c), = p.items()
            out = Rat.const(abs(c))
            inside: List[Tuple[Atom, int]] = []
            for at, e in m:
                if at.kind == "fn" and at.name == "abs":
                    out = out.mul(Rat({((at, e),): Fraction(1)}, None, _normal=False))
                elif e % 2 == 0 or atom_nonneg(at):
                    out = out.mul(Rat({((at, e),): Fraction(1)}, None, _normal=True))
                else:
                    if e > 1:
                        out = out.mul(Rat({((at, e - 1),): Fraction(1)}, None, _normal=True))
                    inside.append((at, 1))
            if inside:
                arg = Rat({tuple(sorted(inside, key=lambda t: t[0].skey)): Fraction(1)}, None, _normal=True)
                out = out.mul(Rat.from_atom(Atom("fn", "abs", (arg,), arg.is_array())))
            return out
        c, prim = _content_sign(p)
        if p_nonneg(prim):
            return Rat(p_scale(prim, abs(c)))
        return Rat.const(abs(c)).mul(_fn_atom("abs", (Rat(prim),)))
    return abs_poly(r.num).div(abs_poly(r.den))


def _sqrt_fraction(c: Fraction) -> Optional[Fraction]:
    if c < 0:
        return None
    n, d = c.numerator, c.denominator
    rn, rd = isqrt(n), isqrt(d)
    if rn * rn == n and rd * rd == d:
        return Fraction(rn, rd)
    return None


def f_sqrt(r: Rat) -> Rat:
    def sqrt_poly(p: Poly) -> Rat:
        if not p:
            return Rat.const(0)
        if len(p) == 1:
            (m, c), = p.items()
            out = Rat.const(1)
            inside = Rat.const(1)
            sc = _sqrt_fraction(c)
            if sc is not None:
                out = Rat.const(sc)
            else:
                inside = Rat.const(c)
            for at, e in m:
                if at.kind == "fn" and at.name == "sqrt" and False:
                    pass
                k, rem = divmod(e, 2)
                if k:
                    base = Rat.from_atom(at)
                    out = out.mul((base if atom_nonneg(at) else f_abs(base)).pow(k))
                if rem:
                    inside = inside.mul(Rat.from_atom(at))
            if inside.is_const() == 1:
                return out
            return out.mul(_fn_atom("sqrt", (inside,)))
        # perfect square of a binomial-like polynomial?  (a^2 + 2ab + b^2)
        c, prim = _content_sign(p)
        sc = _sqrt_fraction(c)
        root = _poly_sqrt(prim)
        if root is not None and sc is not None:
            return Rat.const(sc).mul(f_abs(Rat(root)))
        if sc is not None and sc != 1:
            return Rat.const(sc).mul(_fn_atom("sqrt", (Rat(prim),)))
        return _fn_atom("sqrt", (Rat(p),))
    return sqrt_poly(r.num).div(sqrt_poly(r.den))


def _poly_sqrt(p: Poly) -> Optional[Poly]:
    """Exact square root of a polynomial when it is a perfect square (small cases)."""
    if len(p) < 2 or len(p) > 12:
        return None
    lm, lc = p_lead(p)
    if any(e % 2 for _a, e in lm):
        return None
    slc = _sqrt_fraction(lc)
    if slc is None:
        return None
    root: Poly = {tuple((a, e // 2) for a, e in lm): slc}
    # Newton-like completion: r_{k+1} picks the leading term of (p - r^2) / (2*lead(r))
    for _ in range(12):
        rem = p_add(p, p_mul(root, root), Fraction(-1))
        if not rem:
            return root
        rm, rc = p_lead(rem)
        d = dict(rm)
        l0m, l0c = p_lead(root)
        ok = True
        for at, e in l0m:
            if d.get(at, 0) < e:
                ok = False
        if not ok:
            return None
        qm = tuple(sorted(((at, d[at] - dict(l0m).get(at, 0)) for at in d if d[at] - dict(l0m).get(at, 0) != 0),
                          key=lambda t: t[0].skey))
        root = p_add(root, {qm: rc / (2 * l0c)})
    return None


def f_log(r: Rat) -> Rat:
    c = r.is_const()
    if c == 1:
        return Rat.const(0)
    return _fn_atom("log", (r,))


def f_minmax(name: str, args: Sequence[Rat]) -> Rat:
    flat: List[Rat] = []
    for a in args:
        ats = a.atoms()
        if len(ats) == 1 and a.equals(Rat.from_atom(ats[0])) and ats[0].kind == "fn" and ats[0].name == name:
            flat.extend(ats[0].args)
        else:
            flat.append(a)
    uniq: Dict[tuple, Rat] = {}
    for a in flat:
        uniq[a.key] = a
    vals = list(uniq.values())
    consts = [v.is_const() for v in vals]
    if all(c is not None for c in consts):
        return Rat.const(max(consts) if name == "max" else min(consts))
    # fold numeric constants together
    nums = [c for c in consts if c is not None]
    rest = [v for v, c in zip(vals, consts) if c is None]
    if nums:
        k = max(nums) if name == "max" else min(nums)
        # max(x, 0) with x >= 0 is x ; min(x, c) with ... keep general
        if name == "max" and k <= 0 and any(v.is_nonneg() for v in rest):
            pass
        else:
            rest.append(Rat.const(k))
    if len(rest) == 1:
        return rest[0]
    rest.sort(key=lambda v: repr(v.key))
    return _fn_atom(name, tuple(rest))


def f_sum(r: Rat, length: Optional[Rat] = None) -> Rat:
    """Sum over the (common) array axis.  Linear; scalar factors are pulled out;
    Sum of a scalar c is c * length."""
    if length is None:
        length = sym("N")

    def split(m: Mono) -> Tuple[Mono, Mono]:
        sc = tuple((a, e) for a, e in m if not a.array)
        ar = tuple((a, e) for a, e in m if a.array)
        return sc, ar

    den_arrays = any(a.array for m in r.den for a, _e in m)
    if not den_arrays:
        acc = Rat.const(0)
        for m, c in r.num.items():
            sc, ar = split(m)
            scal = Rat({sc: c})
            if not ar:
                acc = acc.add(scal.mul(length))
            else:
                acc = acc.add(scal.mul(_fn_atom("Sum", (Rat({ar: Fraction(1)}),), array=False)))
        return acc.div(Rat(r.den))
    # denominator depends on the array: pull out scalar monomial factors only
    if not r.is_array():
        return r.mul(length)
    if len(r.num) > 1:
        # linearity over the numerator terms keeps sums of quotients comparable
        acc = Rat.const(0)
        for m, c in r.num.items():
            acc = acc.add(f_sum(Rat({m: c}, r.den), length))
        return acc
    (m, c), = r.num.items()
    sc, ar = split(m)
    return Rat({sc: c}).mul(_fn_atom("Sum", (Rat({ar: Fraction(1)}, r.den),), array=False))


def f_pow(base: Rat, expo: Rat) -> Rat:
    c = expo.is_const()
    if c is not None:
        if c.denominator == 1:
            return base.pow(int(c))
        if c.denominator == 2:
            k = c.numerator
            s = f_sqrt(base)
            return s.pow(k) if k >= 0 else s.pow(-k).inv()
    return _fn_atom("pow", (base, expo))


def apply_fn(name: str, args: Tuple[Rat, ...], array: Optional[bool] = None, extra=None) -> Rat:
    if name == "abs":
        return f_abs(args[0])
    if name == "sqrt":
        return f_sqrt(args[0])
    if name == "log":
        return f_log(args[0])
    if name in ("max", "min"):
        return f_minmax(name, args)
    if name == "Sum":
        return f_sum(args[0])
    if name == "pow":
        return f_pow(args[0], args[1])
    return _fn_atom(name, tuple(args), array, extra)


ELEMENTWISE_FNS = {"abs", "sqrt", "log", "max", "min", "pow", "exp"}
LENGTH_HOOK = None        # set by the evaluator in use: Rat array -> its length (for end-relative positions)


def opaque(name: str, *args: Rat, array: Optional[bool] = None, extra=None) -> Rat:
    if name == "at" and len(args) == 2 and LENGTH_HOOK is not None and args[1].is_const() is None:
        # x[len(x) - k] is x[-k]: one normal form for positions counted from the end
        try:
            back = args[1].sub(LENGTH_HOOK(args[0])).is_const()
        except Exception:
            back = None
        if back is not None and back < 0 and Fraction(back).denominator == 1:
            args = (args[0], Rat.const(back))
    if name == "slice" and len(args) == 3:
        arr = args[0]
        at_ = arr.atoms()
        if not (len(at_) == 1 and arr.equals(Rat.from_atom(at_[0])) and not (at_[0].kind == "fn" and at_[0].name in ELEMENTWISE_FNS)) and arr.is_array():
            # a slice of an element-wise expression is the expression of the slices: f(u, v)[a:b] = f(u[a:b], v[a:b])
            # (one normal form: slices innermost)
            lo_r, hi_r = args[1], args[2]

            def push(a_):
                if a_.kind == "fn" and a_.name in ELEMENTWISE_FNS:
                    return apply_fn(a_.name, tuple(dist(x_) if x_.is_array() else x_ for x_ in a_.args), True, a_.extra)
                return opaque("slice", Rat.from_atom(a_), lo_r, hi_r, array=True)

            def top(p_):
                acc = Rat.const(0)
                for m_, c_ in p_.items():
                    term = Rat.const(c_)
                    for a_, e_ in m_:
                        term = term.mul((push(a_) if a_.array else Rat.from_atom(a_)).pow(e_))
                    acc = acc.add(term)
                return acc

            def dist(r_):
                return top(r_.num).div(top(r_.den))
            return dist(arr)
    if name == "slice" and len(args) == 3 and LENGTH_HOOK is not None and args[1].is_zero() and args[2].symbols() != {"None"}:
        # x[0:len(x)] is x
        try:
            if args[2].equals(LENGTH_HOOK(args[0])):
                return args[0]
        except Exception:
            pass
    if name == "slice" and len(args) == 3 and LENGTH_HOOK is not None and args[2].symbols() != {"None"} and args[2].is_const() is None:
        # x[a:len(x)] is x[a:]
        try:
            if args[2].equals(LENGTH_HOOK(args[0])):
                args = [args[0], args[1], sym("None")]
        except Exception:
            pass
    return _fn_atom(name, tuple(args), array, extra)


# --------------------------------------------------------------------------
# localisation of a difference (for violation reports)
# --------------------------------------------------------------------------

def explain_difference(a: Rat, b: Rat) -> str:
    """A short human description of how two normal forms differ."""
    if a.equals(b):
        return "equal"
    d = a.sub(b)
    ra = a.div(b) if not b.is_zero() else None
    if ra is not None:
        c = ra.is_const()
        if c is not None:
            return f"differ by the constant factor {c}"
    sa = {x.skey: x for x in a.all_atoms()}
    sb = {x.skey: x for x in b.all_atoms()}
    only_a = [str(sa[k]) for k in sa if k not in sb]
    only_b = [str(sb[k]) for k in sb if k not in sa]
    if only_a or only_b:
        return f"sub-terms only in the code: {only_a[:4]} ; only in the reference: {only_b[:4]}"
    return f"same atoms, different polynomial: code - reference = {str(d)[:200]}"

# --------------------------------------------------------------------------
# integer-valued expressions
# --------------------------------------------------------------------------
# Atoms a rule has *established* to denote integers (e.g. the two values popped from a work stack
# and used unconditionally as slice bounds: a non-integer bound raises TypeError).
INT_ATOMS: set = set()
_INT_FNS = {"argmax", "argmin", "int", "ceil", "floor", "len", "round"}


def declare_integer(r: "Rat") -> None:
    for a in r.atoms():
        if r.den == {(): 1}:
            INT_ATOMS.add(a.skey)


def integer_valued(r: "Rat") -> bool:
    """Polynomial with integer coefficients over integer-valued atoms (indices, counts, lengths)."""
    if r.den != {(): 1}:
        return False
    for m, c in r.num.items():
        if Fraction(c).denominator != 1:
            return False
        for at, _e in m:
            if not ((at.kind == "fn" and at.name in _INT_FNS) or at.skey in INT_ATOMS):
                return False
    return True


# --------------------------------------------------------------------------
# atom rewriting
# --------------------------------------------------------------------------

def rewrite_atoms(r: "Rat", fn) -> "Rat":
    """Rebuild r bottom-up; fn(atom) may return a replacement (a Rat) for an atom whose arguments are already rebuilt."""
    def poly(p) -> Rat:
        acc = Rat.const(0)
        for m, c in p.items():
            term = Rat.const(c)
            for a_, e_ in m:
                term = term.mul(atom(a_).pow(e_))
            acc = acc.add(term)
        return acc

    def atom(a_: Atom) -> Rat:
        if a_.kind == "fn" and a_.args:
            args = tuple(rewrite_atoms(x, fn) for x in a_.args)
            base = apply_fn(a_.name, args, a_.array, a_.extra)
        else:
            base = Rat.from_atom(a_)
        ats = base.atoms()
        if len(ats) == 1 and base.equals(Rat.from_atom(ats[0])):
            out = fn(ats[0])
            if out is not None:
                return out
        return base
    return poly(r.num).div(poly(r.den))


def replace_atoms(r: "Rat", mapping: Dict) -> "Rat":
    """Replace atoms (by structural key) everywhere in r, nested occurrences included.  Sub-terms that do not
    mention any of the atoms are reused as they are."""
    if not mapping:
        return r
    keys = set(mapping)

    def touched(x: "Rat") -> bool:
        return any(a_.skey in keys for a_ in x.all_atoms())
    if not touched(r):
        return r

    def go(x: "Rat") -> "Rat":
        if not touched(x):
            return x

        def poly(p) -> Rat:
            acc = Rat.const(0)
            for m, c in p.items():
                term = Rat.const(c)
                for a_, e_ in m:
                    term = term.mul(atom(a_).pow(e_))
                acc = acc.add(term)
            return acc

        def atom(a_: Atom) -> Rat:
            if a_.skey in keys:
                return mapping[a_.skey]
            if a_.kind == "fn" and a_.args and any(touched(y) for y in a_.args):
                base = apply_fn(a_.name, tuple(go(y) for y in a_.args), a_.array, a_.extra)
                ats = base.atoms()
                if len(ats) == 1 and ats[0].skey in keys and base.equals(Rat.from_atom(ats[0])):
                    return mapping[ats[0].skey]
                return base
            return Rat.from_atom(a_)
        return poly(x.num).div(poly(x.den))
    return go(r)
