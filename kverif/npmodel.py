"""Meaning of the numpy / math / builtin vocabulary the package uses, for the
gated evaluator (E4 table).  Everything not listed is an opaque, pure,
fresh-value call keyed by its callee and canonical arguments."""

from __future__ import annotations

import ast
from fractions import Fraction
from typing import Any, Dict, List, Optional

from . import anf, deps
from . import AnalysisError as AnalysisError_
from .anf import Rat, sym
from .guards import G, TRUE, FALSE, g_and, g_or, g_not, atom as g_atom
from .gvn import Event, Frame, NONE, Obj, PW, Unsupported, Vec, lift, mk_pw, vkey, cases_of
from .model import norm_text

_tables: Dict[str, Dict[int, str]] = {}


def _array_guard(g) -> bool:
    """The guard tests an array-valued expression element-wise (some `sign` leaf is over an array)."""
    if g.kind == "sign":
        return g.a.is_array()
    if g.kind == "not":
        return _array_guard(g.a)
    if g.kind in ("and", "or"):
        return any(_array_guard(x) for x in g.a)
    return False


def _table() -> Dict[int, str]:
    if "t" in _tables:
        return _tables["t"]
    np = deps.import_dep("numpy")
    math = deps.import_dep("math")
    t: Dict[int, str] = {}
    for n in ("sum", "mean", "average", "sqrt", "square", "absolute", "fabs", "log", "maximum", "minimum", "hypot",
              "power", "divide", "dot", "zeros", "ones", "empty", "array", "asarray", "all", "any", "argmax", "argmin",
              "amax", "amin", "max", "min", "median", "cross", "where", "unique", "sort", "concatenate", "abs",
              "argsort", "column_stack", "hstack", "append", "delete", "diff", "argwhere", "arange", "percentile",
              "searchsorted", "zeros_like", "empty_like", "polyfit", "corrcoef", "full", "full_like", "array_equal", "ptp",
              "multiply", "add", "subtract", "true_divide", "exp", "clip", "float64", "nansum", "cumsum", "prod", "take", "flatnonzero"):
        if hasattr(np, n):
            t.setdefault(id(getattr(np, n)), "np." + n)
    t[id(np.linalg.norm)] = "np.linalg.norm"
    import functools as _ft
    import operator as _op
    t[id(_ft.partial)] = "functools.partial"
    t[id(_op.itemgetter)] = "operator.itemgetter"
    for n in ("sqrt", "fabs", "ceil", "floor", "log", "atan", "pow", "exp", "hypot", "isclose"):
        t.setdefault(id(getattr(math, n)), "math." + n)
    import builtins
    for n in ("len", "abs", "min", "max", "int", "float", "sum", "range", "sorted", "list", "all", "any", "print",
              "enumerate", "zip", "round", "tuple", "bool", "str", "set", "dict", "reversed", "map", "filter"):
        t.setdefault(id(getattr(builtins, n)), "py." + n)
    _tables["t"] = t
    return t


def _norm_sq(fr: Frame, v) -> Any:
    """Sum of squared components of a vector value (or square of a scalar)."""
    if isinstance(v, Vec):
        acc = Rat.const(0)
        for c in v.items:
            r = fr.ev.to_rat(c)
            acc = acc.add(r.mul(r))
        return acc
    r = fr.ev.to_rat(v)
    return None


def _quantified(fr: Frame, e: ast.Call, env):
    """all(<elt> for v in <iter>) / any(...): the element condition is evaluated once with v bound to a generic
    element symbol; the result is an atom that remembers (iter value, element guard) in ev.comp_registry."""
    if not (isinstance(e.func, ast.Name) and e.func.id in ("all", "any") and len(e.args) == 1 and not e.keywords):
        return None
    c = e.args[0]
    if not isinstance(c, (ast.GeneratorExp, ast.ListComp)) or len(c.generators) != 1:
        return None
    gen = c.generators[0]
    if gen.ifs or not isinstance(gen.target, ast.Name):
        return None
    r = fr.lk_resolve(e.func)
    if r.kind != "dep":
        return None
    itv = fr.expr(gen.iter, env)
    elem = fr.ev.symbol("elem!" + gen.target.id)
    env2 = dict(env)
    env2[gen.target.id] = elem
    cond = fr.truth(fr.expr(c.elt, env2))
    key = (e.func.id, vkey(itv), cond.key)
    fr.ev.comp_registry[repr(key)] = (e.func.id, itv, elem, cond)
    return g_atom(("quantified", repr(key)), f"{e.func.id}({cond} for {gen.target.id} in {str(itv)[:40]})")


def dispatch_call(fr: Frame, e: ast.Call, env, guard: G, stmt):
    ev = fr.ev
    f = e.func
    q = _quantified(fr, e, env)
    if q is not None:
        return q
    args = []
    for a in e.args:
        if isinstance(a, ast.Starred):
            sv = fr.expr(a.value, env)
            if not isinstance(sv, Vec):
                raise Unsupported("*argument whose items are not known")
            args.extend(sv.items)            # f(*pair) is f(pair[0], pair[1])
        else:
            args.append(fr.expr(a, env))
    kwargs = {k.arg: fr.expr(k.value, env) for k in e.keywords if k.arg is not None}

    # ---- method calls on evaluated values --------------------------------
    if isinstance(f, ast.Attribute):
        r0 = fr.lk_resolve(f)
        if r0.kind not in ("func", "dep", "class"):
            return _method_call(fr, e, f, args, kwargs, env, guard, stmt)
    r = fr.lk_resolve(f)
    # ---- np.maximum.reduce and friends ------------------------------------
    if r.kind == "dep" and r.obj is not None:
        np = deps.import_dep("numpy")
        slf = getattr(r.obj, "__self__", None)
        nm = getattr(r.obj, "__name__", "")
        if slf is np.maximum and nm == "reduce" and args:
            return _minmax(fr, "max", _elements(args[0]))
        if slf is np.minimum and nm == "reduce" and args:
            return _minmax(fr, "min", _elements(args[0]))
        name = _table().get(id(r.obj))
        if name is not None:
            return _known(fr, name, e, args, kwargs, env, guard, stmt)
        # any other dependency call: opaque and pure
        qual = f"{getattr(r.obj, '__module__', '?')}.{nm}"
        if "dep:" + qual in ev.scalar_deps:
            return _opaque_call(fr, "dep:" + qual, args, kwargs, array=False)
        return _opaque_call(fr, "dep:" + qual, args, kwargs)
    # ---- package functions --------------------------------------------------
    if r.kind == "func":
        return _package_call(fr, r.obj, e, args, kwargs, guard, stmt)
    if r.kind == "class":
        return Obj("instance", (r.obj.name, tuple(vkey(a) for a in args)))
    # ---- function-pointer slots / lambdas / unknown -----------------------
    if isinstance(f, ast.Name):
        v = env.get(f.id)
        if v is None:
            v = fr.expr(f, env)          # a module-level table entry / constant
        # a name that may hold one of several functions is a *slot* (kept abstract: rules reason about the slot);
        # a name holding one known function value is simply called
        called = _call_value(fr, v, e, args, kwargs, env, guard, stmt) if not isinstance(v, PW) else _NOT_CALLABLE
        if called is not _NOT_CALLABLE:
            return called
        fr.events.append(Event(guard, "call", f.id, tuple(args), e, fr.havoc_depth))
        params_ = fr.fi.signature.positional + fr.fi.signature.kwonly
        if f.id not in params_ and not isinstance(v, PW):
            # a local holding a callable of unknown origin (functools.partial(..), the result of a dispatch, a closure handed around):
            # unlike a function-valued *parameter* (a declared slot) nothing is known about what it computes
            from . import report as _report
            _report.UNKNOWN_CALLABLES.add("slot:" + f.id)
        return _opaque_call(fr, "slot:" + f.id, args, kwargs)
    if isinstance(f, (ast.Call, ast.IfExp)) or (isinstance(f, ast.Subscript) and not (isinstance(fr.expr(f.value, env), Obj))):
        # the callee is itself computed: table.get(key, default)(...), (a if c else b)(...)
        try:
            fv = fr.expr(f, env)
        except Unsupported:
            fv = None
        called = _call_value(fr, fv, e, args, kwargs, env, guard, stmt) if fv is not None else _NOT_CALLABLE
        if called is not _NOT_CALLABLE:
            return called
    if isinstance(f, ast.Subscript):
        # dispatch table methods[cost](...)
        tbl = fr.expr(f.value, env)
        key = fr.expr(f.slice, env)
        if isinstance(tbl, Obj) and tbl.tag == "dict":
            cases = []
            rest = TRUE
            if isinstance(key, Obj):
                # a known key: the entry itself is called (function, lambda or nested def)
                for (kk, _vk, vv) in tbl.val:
                    if kk == vkey(key):
                        called = _call_value(fr, vv, e, args, kwargs, env, guard, stmt)
                        if called is not _NOT_CALLABLE:
                            return called
            for (kk, _vk, vv) in tbl.val:
                if isinstance(vv, Obj) and vv.tag == "func":
                    g = fr.compare1(ast.Is(), key, _obj_from_key(kk), e)
                    fi = fr.ev.repo.func(vv.val)
                    cases.append((g, _package_call(fr, fi, e, args, kwargs, g_and(guard, g), stmt)))
            if cases:
                return mk_pw(cases)
        return _opaque_call(fr, "call:" + norm_text(f), args, kwargs)
    fr.events.append(Event(guard, "call", norm_text(f), tuple(args), e, fr.havoc_depth))
    return _opaque_call(fr, "call:" + norm_text(f), args, kwargs)


_NOT_CALLABLE = object()


def _call_value(fr: Frame, v, e, args, kwargs, env, guard, stmt):
    """Call a function *value*: a package function, a lambda or a nested def (also piecewise: one call per case)."""
    ev = fr.ev
    if isinstance(v, PW):
        cases = []
        for g, c in v.cases:
            r = _call_value(fr, c, e, args, kwargs, env, g_and(guard, g), stmt)
            if r is _NOT_CALLABLE:
                return _NOT_CALLABLE
            cases.append((g, r))
        return mk_pw(cases)
    if not isinstance(v, Obj):
        return _NOT_CALLABLE
    if v.tag == "partial":
        # functools.partial(f, *a, **k)(*b, **m) is f(*a, *b, **{**k, **m})
        reg = ev.__dict__.setdefault("partial_registry", {}) if hasattr(ev, "__dict__") else {}
        ent = reg.get(v.val)
        if ent is None:
            return _NOT_CALLABLE
        fval, pargs, pkw = ent
        merged = dict(pkw)
        merged.update(kwargs)
        return _call_value(fr, fval, e, list(pargs) + list(args), merged, env, guard, stmt)
    if v.tag == "func":
        fi = ev.repo.func(v.val) if "." in str(v.val) else None
        if fi is None:
            return _NOT_CALLABLE
        return _package_call(fr, fi, e, args, kwargs, guard, stmt)
    if v.tag == "lambda" and v.val in ev.fn_registry:
        node, def_fi, def_env = ev.fn_registry[v.val]
        if fr.depth >= ev.inline_depth + 2:
            return _NOT_CALLABLE
        # free variables are the enclosing function's locals: their *current* values when the call is made from that function
        base = dict(env) if def_fi is fr.fi else dict(def_env)
        a_ = node.args
        params = [p.arg for p in a_.args]
        if a_.vararg or a_.kwarg or a_.kwonlyargs or a_.posonlyargs:
            return _NOT_CALLABLE
        bound = {}
        for k_, val in enumerate(args):
            if k_ >= len(params):
                return _NOT_CALLABLE
            bound[params[k_]] = val
        for k_, val in kwargs.items():
            if k_ not in params or k_ in bound:
                return _NOT_CALLABLE
            bound[k_] = val
        defaults = a_.defaults
        for k_, d in enumerate(defaults):
            pn = params[len(params) - len(defaults) + k_]
            if pn not in bound:
                bound[pn] = fr.expr(d, def_env)
        if set(bound) != set(params):
            return _NOT_CALLABLE
        base.update(bound)
        sub = Frame(ev, def_fi, fr.depth + 1)
        if isinstance(node, ast.Lambda):
            return sub.expr(node.body, base)
        if any(isinstance(n, (ast.For, ast.While, ast.Global, ast.Nonlocal)) for n in ast.walk(node)):
            return _NOT_CALLABLE
        live = sub.block(node.body, base, TRUE)
        if sub.events and any(ev_.kind not in ("return", "call") for ev_ in sub.events):
            return _NOT_CALLABLE
        rets = list(sub.returns)
        if live.kind != "false":
            rets.append((live, NONE))
        return mk_pw(rets)
    return _NOT_CALLABLE


def _obj_from_key(k):
    if isinstance(k, tuple) and k and k[0] == "obj":
        return Obj(k[1], k[2])
    return Obj("key", k)


def _elements(v) -> List[Any]:
    if isinstance(v, Vec):
        return list(v.items)
    return [v]


def _rat_args(fr: Frame, args, kwargs) -> List[Rat]:
    out = []
    for a in list(args) + [kwargs[k] for k in sorted(kwargs)]:
        try:
            if isinstance(a, PW):
                out.append(anf.opaque("pw", extra=repr(a.key)))
            else:
                out.append(fr.ev.to_rat(a))
        except Unsupported:
            out.append(anf.opaque("val", extra=repr(vkey(a))))
    return out


# keyword arguments spelled out with the dependency's own default value: the same call
DEFAULT_KEYWORDS = {"np.searchsorted": {"side": "left"}, "np.sort": {"axis": -1}, "np.argsort": {"axis": -1}, "np.unique": {"return_index": False},
                    "np.concatenate": {"axis": 0}, "np.diff": {"n": 1}}


def _opaque_call(fr: Frame, name: str, args, kwargs, array: Optional[bool] = None):
    for k_, dv_ in DEFAULT_KEYWORDS.get(name, {}).items():
        if k_ in kwargs:
            v_ = kwargs[k_]
            same = (isinstance(v_, Obj) and v_.tag == "str" and v_.val == dv_) or (isinstance(v_, Rat) and not isinstance(dv_, (str, bool)) and v_.is_const() == dv_) \
                or (isinstance(v_, G) and isinstance(dv_, bool) and v_.kind == ("true" if dv_ else "false"))
            if same:
                kwargs = {a_: b_ for a_, b_ in kwargs.items() if a_ != k_}
    kws = sorted(kwargs)

    def mk(*vals):
        ra = _rat_args(fr, list(vals[:len(args)]), dict(zip(kws, vals[len(args):])))
        arr = any(x.is_array() for x in ra) if array is None else array
        return anf.opaque(name, *ra, array=arr, extra=tuple(kws) or None)
    return lift(mk, *(list(args) + [kwargs[k] for k in kws]))


def _minmax(fr: Frame, which: str, items) -> Any:
    def f(*xs):
        if any(isinstance(x, Vec) for x in xs):
            n = max(len(x.items) for x in xs if isinstance(x, Vec))
            return Vec([f(*[(x.items[i] if isinstance(x, Vec) else x) for x in xs]) for i in range(n)], "point")
        return anf.f_minmax(which, [fr.ev.to_rat(x) for x in xs])
    return lift(f, *items)


def _package_call(fr: Frame, fi, e, args, kwargs, guard, stmt):
    ev = fr.ev
    sig = fi.signature
    amap: Dict[str, Any] = {}
    pos = sig.positional
    for i, a in enumerate(args):
        if i < len(pos):
            amap[pos[i]] = a
    for k, v in kwargs.items():
        amap[k] = v
    has_loop = any(isinstance(n, (ast.For, ast.While)) for n in ast.walk(fi.node))
    if has_loop and ev.summarise_loops and not any(isinstance(n, ast.While) for n in ast.walk(fi.node)):
        has_loop = False            # `for` loops may be summarised exactly; checked below
    if (not has_loop) and fr.depth < ev.inline_depth and fi.qualname not in ev.no_inline:
        try:
            n_log = len(ev.summary_log)
            res = ev.eval_function(fi, amap, fr.depth + 1)
            if len(ev.summary_log) > n_log:
                raise Unsupported(f"a loop of {fi.qualname} could not be summarised: {ev.summary_log[-1][1]}")
            ev.inlined.add(fi.qualname)
            # side effects of the callee on its parameters are side effects on the caller's arguments
            alias = {}
            for i, a in enumerate(e.args):
                if i < len(pos) and isinstance(a, ast.Name):
                    alias[pos[i]] = a.id
            for kw in e.keywords:
                if kw.arg is not None and isinstance(kw.value, ast.Name):
                    alias[kw.arg] = kw.value.id
            for evn in res.events:
                if evn.kind != "return":
                    tgt = alias.get(evn.target, f"{fi.qualname}:{evn.target}") if ":" not in evn.target else evn.target
                    fr.events.append(Event(g_and(guard, evn.guard), evn.kind, tgt, evn.args, evn.node, fr.havoc_depth))
            return res.value()
        except Unsupported as ex:
            ev.notes.append(f"not inlined {fi.qualname}: {ex}")
            del ev.summary_log[n_log:]       # handled here: the call stays opaque, the caller's own loops are not affected
    # the call event carries every bound argument in the callee's parameter order (positional or keyword alike)
    ev_args = []
    for n_ in pos:
        if n_ not in amap:
            break                   # position k of the event is parameter k: stop at the first omitted parameter
        ev_args.append(amap[n_])
    ev_args = tuple(ev_args) if len(ev_args) >= len(args) else tuple(args)
    fr.events.append(Event(guard, "call", fi.qualname, ev_args, e, fr.havoc_depth))
    # opaque: keyed by the callee and *all* bound arguments (defaults included by name)
    names = [p for p in pos if p in amap] + sorted(k for k in amap if k not in pos)

    def mk(*vals, site=None):
        ra = _rat_args(fr, list(vals), {})
        return anf.opaque("call:" + fi.qualname, *ra, array=any(x.is_array() for x in ra), extra=tuple(names) + ((site,) if site else ()))
    plain = lift(mk, *[amap[n] for n in names])
    refined = _by_return_site(fr, fi, amap, names, mk) if fr.depth < ev.inline_depth and fi.qualname not in ev.no_inline else None
    if refined is None and fi.qualname not in ev.no_inline and fi.name.startswith("_") and fi.qualname not in _anchored_private():
        # a private helper kept opaque not by a rule's choice but because its body could not be read here (loops, depth) and
        # not even which of its exits is taken: what it returns is unknown, and no rule knows it by name
        from . import report as _report
        _report.OPAQUE_FALLBACKS.add("call:" + fi.qualname)
    return refined if refined is not None else plain


_ANCHORED = None


def _anchored_private() -> set:
    """Private functions the rules know by name (anchors of the properties: the private loops of rdp, the Kneedle worker, the
    hull comparators): an opaque call of one of them is a value the rules reason about, not a placeholder."""
    global _ANCHORED
    if _ANCHORED is None:
        import glob
        import os
        import re
        names = set()
        for f in glob.glob(os.path.join(os.path.dirname(__file__), "rules", "*.py")):
            with open(f, encoding="utf-8") as fh:
                names |= set(re.findall(r"[\"']([a-z_]+\._[a-z_0-9]+)[\"']", fh.read()))
        _ANCHORED = names
    return _ANCHORED


def _unknown(x) -> bool:
    k = repr(x.key) if hasattr(x, "key") else repr(x)
    return "#" in k or "@after" in k or "@list" in k or "@set" in k


def _by_return_site(fr: Frame, fi, amap, names, mk):
    """A callee whose loops cannot be summarised is still a function of its arguments.  When *which* return statement
    is taken is decided exactly (by conditions free of anything a loop computes), the result is known per exit: an exit
    returning None / a constant is that value, an exit returning something a loop computed is an opaque value of the
    arguments tagged with the exit.  (`rankings = helper(..)` followed by `if rankings is None` is then decided.)"""
    ev = fr.ev
    if not all(isinstance(amap[n], (Rat, Vec, Obj)) for n in names):
        return None
    # only worth a trial evaluation when some exit returns a literal (None / a constant) and another one does not
    rets = [n for n in ast.walk(fi.node) if isinstance(n, ast.Return)]
    lits = [n for n in rets if n.value is None or isinstance(n.value, ast.Constant)]
    if not lits or len(lits) == len(rets):
        return None
    ck = (fi.qualname, tuple((n, repr(vkey(amap[n]))) for n in names))
    cache = ev.__dict__.setdefault("_site_cache", {}) if hasattr(ev, "__dict__") else {}
    if ck in cache:
        return cache[ck]
    cache[ck] = None
    out_ = _by_return_site_(fr, fi, amap, names, mk)
    cache[ck] = out_
    return out_


def _by_return_site_(fr: Frame, fi, amap, names, mk):
    ev = fr.ev
    n_log, n_ev, keep_fresh = len(ev.summary_log), len(fr.events), ev.fresh
    try:
        res = ev.eval_function(fi, dict(amap), fr.depth + 1)
    except (Unsupported, AnalysisError_, RecursionError):
        del ev.summary_log[n_log:]
        ev.fresh = keep_fresh
        return None
    del ev.summary_log[n_log:]
    ev.fresh = keep_fresh            # (nothing of the trial evaluation survives but exact values and tagged calls)
    val = res.value()
    cases = cases_of(val)
    if len(cases) < 2 or any(_unknown(g) for g, _v in cases):
        return None
    exact = [(g, v) for g, v in cases if not _unknown(v)]
    if not any(isinstance(v, Obj) or (isinstance(v, Rat) and v.is_const() is not None) for _g, v in exact):
        return None
    out = []
    for k, (g, v) in enumerate(cases):
        if isinstance(v, Obj) or (isinstance(v, Rat) and v.is_const() is not None):
            out.append((g, v))
        else:
            out.append((g, mk(*[amap[n] for n in names], site=f"@exit{k}")))
    return mk_pw(out)


def range_items(ev, o):
    """The elements of a range value as a one-block list: range(a, b, s) holds a, a+s, .. below b."""
    args = getattr(ev, "range_registry", {}).get(o.key)
    if args is None:
        return None
    from .seqdom import mk_gen, var_symbol
    lo, hi, st = (Rat.const(0), args[0], Rat.const(1)) if len(args) == 1 else (args[0], args[1], args[2] if len(args) == 3 else Rat.const(1))
    d = ev.gen_depth
    if st.is_const() == 1:
        return Vec([mk_gen(d, lo, hi, st, [(TRUE, var_symbol(d), False)])], "list")
    from .seqdom import Gen
    return Vec([Gen(d, lo, hi, st, [(TRUE, var_symbol(d), False)], ranged=True)], "list")


def _method_call(fr: Frame, e, f: ast.Attribute, args, kwargs, env, guard, stmt):
    ev = fr.ev
    m = f.attr
    base_name = f.value.id if isinstance(f.value, ast.Name) else norm_text(f.value)
    if m in ("append", "extend", "insert", "remove", "sort", "reverse", "clear", "add", "update", "fill"):
        if m == "extend" and len(args) == 1 and isinstance(args[0], Obj) and args[0].tag == "range" and range_items(ev, args[0]) is not None:
            args = [range_items(ev, args[0])]
        if isinstance(f.value, ast.Name) and f.value.id in env:
            cur = env[f.value.id]
            if isinstance(cur, Vec) and cur.kind == "list" and fr.havoc_depth == 0 and (guard.kind == "true" or ev.summarise_loops):
                # (with loop summaries on: env is the state on the live path, the branch merge re-introduces the condition)
                if m == "append" and len(args) == 1:
                    env[f.value.id] = Vec(list(cur.items) + [args[0]], "list")
                elif m == "extend" and len(args) == 1 and isinstance(args[0], Vec):
                    env[f.value.id] = Vec(list(cur.items) + list(args[0].items), "list")
                elif m == "extend" and len(args) == 1 and isinstance(args[0], Obj) and args[0].tag == "range" and range_items(ev, args[0]) is not None:
                    env[f.value.id] = Vec(list(cur.items) + list(range_items(ev, args[0]).items), "list")
                else:
                    env[f.value.id] = anf.opaque("list:" + f.value.id, extra=fr.ev.fresh_sym("l").key[0])
            elif isinstance(cur, Vec) and cur.kind == "list":
                env[f.value.id] = ev.fresh_sym(f.value.id + "@list")
            elif isinstance(cur, Rat) and m in ("add", "update", "remove", "clear"):
                # a mutated set is a different value from here on: a later membership test sees the new contents
                env[f.value.id] = ev.fresh_sym(f.value.id + "@set")
        fr.events.append(Event(guard, m, base_name, tuple(args), e, fr.havoc_depth))
        return NONE
    if m == "pop":
        fr.events.append(Event(guard, "pop", base_name, tuple(args), e, fr.havoc_depth))
        return ev.fresh_sym(base_name + ".pop")
    base = fr.expr(f.value, env)
    if m in ("all", "any") and not args and isinstance(base, G):
        if base.key in ev.vec_compare:
            return ev.vec_compare[base.key][0 if m == "all" else 1]
        if m == "any" and _array_guard(base):
            return g_atom(("any", base.key), f"any({base})")
        return base            # (mask).all() / .any(): as np.all(mask) / np.any(mask)
    if m in ("astype", "copy", "flatten", "ravel", "tolist", "squeeze", "view"):
        return base
    if m in ("info", "debug", "warning", "error"):
        return NONE

    def red(name):
        def g(b):
            if isinstance(b, Vec) and b.kind == "point" and ("axis" in kwargs):
                return Vec([anf.opaque(name, ev.to_rat(c), array=False) for c in b.items], "point")
            if isinstance(b, Vec):
                return anf.f_minmax("max" if name == "amax" else "min", [ev.to_rat(c) for c in b.items])
            return anf.opaque(name, ev.to_rat(b), array=False)
        return lift(g, base)
    if m in ("sum", "mean", "argmax", "argmin", "dot") or (m in ("max", "min") and not isinstance(base, Vec)):
        # x.m(...) is np.m(x, ...): one normal form for the method and the function spelling
        try:
            return _known(fr, "np." + m, e, [base] + list(args), kwargs, env, guard, stmt)
        except Unsupported:
            pass
    if m == "max":
        return red("amax")
    if m == "min":
        return red("amin")
    if m == "sum":
        return lift(lambda b: anf.f_sum(ev.to_rat(b), ev.length_of(b)), base)
    if m == "mean":
        return lift(lambda b: anf.f_sum(ev.to_rat(b), ev.length_of(b)).div(ev.length_of(b)), base)
    if m == "argsort":
        return lift(lambda b: anf.opaque("argsort", ev.to_rat(b), array=True), base)
    if m == "get" and isinstance(base, Obj) and base.tag == "dict" and 1 <= len(args) <= 2 and not kwargs:
        key, dflt = args[0], (args[1] if len(args) == 2 else NONE)
        if isinstance(key, Obj):
            for (kk, _vk, vv) in base.val:
                if kk == vkey(key):
                    return vv
            if all(isinstance(kk, tuple) and kk and kk[0] == "obj" for kk, _v, _x in base.val):
                return dflt               # every key is a known object and none is this one
        else:
            cases, rest = [], TRUE
            for (kk, _vk, vv) in base.val:
                g = fr.compare1(ast.Is(), key, _obj_from_key(kk), e)
                cases.append((g_and(rest, g), vv))
                rest = g_and(rest, g_not(g))
            cases.append((rest, dflt))
            return mk_pw(cases)
    if m == "keys" or m == "values" or m == "items":
        return anf.opaque("dict." + m, ev.to_rat(base) if not isinstance(base, PW) else anf.opaque("pw", extra=repr(base.key)))
    fr.events.append(Event(guard, "call", f"{base_name}.{m}", tuple(args), e, fr.havoc_depth))
    try:
        rb = ev.to_rat(base)
    except Unsupported:
        rb = anf.opaque("val", extra=repr(vkey(base)))
    return anf.opaque("method:" + m, rb, *_rat_args(fr, args, kwargs), array=rb.is_array())


def _known(fr: Frame, name: str, e, args, kwargs, env, guard, stmt):
    ev = fr.ev
    R = ev.to_rat

    def a(i):
        if i >= len(args):
            raise Unsupported(f"{name}: missing argument {i}")
        return args[i]
    if name in ("np.sum", "py.sum", "np.nansum"):
        if "axis" in kwargs and isinstance(a(0), Vec):
            v = a(0)
            acc = Rat.const(0)
            for c in v.items:
                acc = acc.add(R(c))
            return acc
        if "axis" in kwargs:
            return _opaque_call(fr, name, args, kwargs)
        return lift(lambda v: anf.f_sum(R(v), ev.length_of(v)) if not isinstance(v, Vec)
                    else _sum_items(fr, v), a(0))
    if name in ("np.mean", "np.average"):
        if len(args) > 1 or kwargs:
            return _opaque_call(fr, name, args, kwargs)
        return lift(lambda v: (anf.f_sum(R(v), ev.length_of(v)).div(ev.length_of(v))) if not isinstance(v, Vec)
                    else _sum_items(fr, v).div(Rat.const(len(v.items))), a(0))
    if name in ("np.sqrt", "math.sqrt"):
        return ev.map1(anf.f_sqrt, a(0))
    if name == "np.square":
        return ev.map1(lambda r: r.mul(r), a(0))
    if name in ("np.absolute", "np.abs", "np.fabs", "math.fabs", "py.abs"):
        return ev.map1(anf.f_abs, a(0))
    if name in ("np.log", "math.log"):
        if len(args) > 1:
            return _opaque_call(fr, name, args, kwargs)
        return ev.map1(anf.f_log, a(0))
    if name in ("np.exp", "math.exp"):
        return ev.map1(lambda r: anf.opaque("exp", r), a(0))
    if name in ("np.maximum", "np.minimum"):
        return _minmax(fr, "max" if name.endswith("maximum") else "min", [a(0), a(1)])
    if name in ("py.max", "py.min", "np.max", "np.min", "np.amax", "np.amin"):
        which = "max" if "max" in name else "min"
        if name.startswith("py.") and len(args) >= 2:
            return _minmax(fr, which, args)
        v = a(0)
        if isinstance(v, Vec) and v.kind != "point":
            return _minmax(fr, which, list(v.items))
        if isinstance(v, Vec) and "axis" in kwargs:
            return Vec([anf.opaque("a" + which, R(c), array=False) for c in v.items], "point")
        return lift(lambda x: anf.opaque("a" + which, R(x), array=False), v)
    if name in ("np.hypot", "math.hypot"):
        return lift(lambda x, y: anf.f_sqrt(R(x).mul(R(x)).add(R(y).mul(R(y)))), a(0), a(1))
    if name in ("np.power", "math.pow"):
        return ev.arith("**", a(0), a(1))
    if name in ("np.divide", "np.true_divide", "np.multiply", "np.add", "np.subtract"):
        opn = {"np.divide": "/", "np.true_divide": "/", "np.multiply": "*", "np.add": "+", "np.subtract": "-"}[name]
        extra = set(kwargs) - {"where", "out"}
        if extra:
            return _opaque_call(fr, name, args, kwargs)
        if "where" in kwargs or "out" in kwargs:
            # ufunc(a, b, out=o, where=m): the operation where m holds, the content of o elsewhere (element by element)
            m_, o_ = kwargs.get("where"), kwargs.get("out")
            if isinstance(m_, G) and o_ is not None:
                return mk_pw([(m_, ev.arith(opn, a(0), a(1))), (g_not(m_), o_)])
            if m_ is None:
                return ev.arith(opn, a(0), a(1))          # only out=: the same values, written into o
            return _opaque_call(fr, name, args, kwargs)
        return ev.arith(opn, a(0), a(1))
    if name == "np.dot":
        def dot(x, y):
            if isinstance(x, Vec) and isinstance(y, Vec) and len(x.items) == len(y.items):
                acc = Rat.const(0)
                for p, q in zip(x.items, y.items):
                    acc = acc.add(R(p).mul(R(q)))
                return acc
            rx, ry = R(x), R(y)
            if rx.is_array() and ry.is_array():
                # inner product of two element-wise (1-D) expressions: the sum of the element-wise products
                return anf.f_sum(rx.mul(ry), ev.length_of(x))
            return anf.opaque("dot", rx, ry)
        return lift(dot, a(0), a(1))
    if name == "np.cross":
        def cross(x, y):
            if isinstance(x, Vec) and isinstance(y, Vec) and len(x.items) == 2 and len(y.items) == 2:
                # numpy >= 2 rejects 2-component vectors; the value is kept for the algebra, the
                # rejection itself is a separate rule (C01-R5 / C17)
                return R(x.items[0]).mul(R(y.items[1])).sub(R(x.items[1]).mul(R(y.items[0])))
            return anf.opaque("cross", R(x), R(y))
        return lift(cross, a(0), a(1))
    if name == "np.linalg.norm":
        def norm(x):
            if isinstance(x, Vec):
                acc = Rat.const(0)
                for p in x.items:
                    acc = acc.add(R(p).mul(R(p)))
                return anf.f_sqrt(acc)
            r = R(x)
            if "axis" in kwargs:
                return anf.opaque("norm_axis", r, array=True)
            if r.is_array():
                return anf.f_sqrt(anf.f_sum(r.mul(r), ev.length_of(x)))
            return anf.f_abs(r)
        return lift(norm, a(0))
    if name in ("np.zeros", "np.zeros_like"):
        return Rat.const(0)
    if name in ("np.full", "np.full_like") and len(args) >= 2 and all(isinstance(v_, Rat) and not v_.is_array() for _g, v_ in cases_of(a(1))):
        return a(1)               # the fill value at every position (the dtype question is the dtype guard's)
    if name == "np.ones":
        return Rat.const(1)
    if name in ("np.array", "np.asarray", "py.list", "py.tuple", "py.float", "np.float64"):
        if not args:
            return Vec([], "list")
        v = a(0)
        if isinstance(v, Obj) and v.tag == "range" and range_items(ev, v) is not None:
            return range_items(ev, v)
        if isinstance(v, Vec) and v.kind == "list" and len(v.items) == 2 and name.startswith("np.") \
                and all(isinstance(i, Rat) for i in v.items):
            return Vec(v.items, "point")
        if isinstance(v, Vec) and v.kind == "list" and name.startswith("np.") and not v.arr:
            from .seqdom import Gen
            if any(isinstance(i, Gen) for i in v.items):
                return Vec(v.items, "list", arr=True)          # an array known block by block: arithmetic on it is element-wise
        return v
    if name in ("np.all", "py.all"):
        v = a(0)
        if isinstance(v, G):
            return ev.vec_compare[v.key][0] if v.key in ev.vec_compare else v
        if isinstance(v, PW):
            return fr.truth(v)
        return g_atom(("all", vkey(v)))
    if name in ("np.any", "py.any"):
        v = a(0)
        if isinstance(v, G):
            if v.key in ev.vec_compare:
                return ev.vec_compare[v.key][1]     # any() of an element-wise vector comparison is the disjunction
            if _array_guard(v):
                # an element-wise test on an array is carried as one guard that stands for "every element" (the reading of
                # np.all / of a mask); "some element" is a different statement and must not be confused with it
                return g_atom(("any", v.key), f"any({v})")
            return v
        return g_atom(("any", vkey(v)))
    if name in ("np.argmax", "np.argmin"):
        return lift(lambda v: anf.opaque(name[3:], R(v), array=False), a(0))
    if name == "py.len":
        def ln(v):
            r = ev.length_of(v)
            ev.length_values.add(r.key)         # a length is a non-negative integer
            return r
        return lift(ln, a(0))
    if name == "py.int":
        def to_int(v):
            r = R(v)
            c = r.is_const()
            if c is not None:
                return Rat.const(int(c))
            if _integer_valued(r):
                return r            # int() of an index / count is the identity
            return anf.opaque("int", r, array=False)
        return lift(to_int, a(0))
    if name in ("math.ceil", "math.floor"):
        def cf(v):
            r = R(v)
            c = r.is_const()
            if c is not None:
                import math
                return Rat.const(math.ceil(c) if name.endswith("ceil") else math.floor(c))
            return anf.opaque(name[5:], r, array=False)
        return lift(cf, a(0))
    if name == "np.append" and len(args) == 2 and "axis" not in kwargs and isinstance(a(0), Vec) and a(0).kind == "list" and isinstance(a(1), Rat) \
            and not a(1).is_array():
        return Vec(list(a(0).items) + [a(1)], "list")       # np.append(np.array(list), scalar): the list with one more element
    if name == "py.bool" and len(args) == 1:
        return fr.truth(a(0))
    if name == "py.round":
        return lift(lambda v: anf.opaque("round", R(v)), a(0))
    if name == "py.range":
        o = Obj("range", tuple(vkey(x) for x in args))
        if ev.summarise_loops and 1 <= len(args) <= 3 and all(isinstance(x, Rat) and not x.is_array() for x in args):
            ev.range_registry[o.key] = tuple(args)
        return o
    if name in ("py.print",):
        return NONE
    if name == "np.median":
        return lift(lambda v: anf.opaque("median", R(v), array=False), a(0))
    if name == "np.where" and len(args) == 1 and isinstance(a(0), G):
        return a(0)          # x[np.where(mask)] selects the same rows as x[mask]
    if name == "np.where" and len(args) == 3:
        c = a(0)
        if isinstance(c, G):
            return mk_pw([(c, a(1)), (g_not(c), a(2))])
    if name == "math.atan":
        return lift(lambda v: anf.opaque("atan", R(v)), a(0))
    if name == "functools.partial" and len(args) >= 1 and isinstance(a(0), Obj) and a(0).tag in ("func", "lambda", "partial"):
        key = "partial:" + repr((vkey(a(0)), tuple(vkey(x) for x in args[1:]), tuple(sorted((k_, repr(vkey(x))) for k_, x in kwargs.items()))))
        reg = ev.__dict__.setdefault("partial_registry", {}) if hasattr(ev, "__dict__") else {}
        reg[key] = (a(0), list(args[1:]), dict(kwargs))
        return Obj("partial", key)
    if name == "np.take" and len(args) == 2 and isinstance(a(0), Vec) and a(0).kind == "point" and isinstance(kwargs.get("axis"), Rat) and kwargs["axis"].is_zero() \
            and isinstance(a(1), Rat) and a(1).is_array():
        # rows of a points array selected by position: every column taken at the same positions
        return Vec([anf.opaque("take", c, a(1), array=True) for c in a(0).items], "point")
    if name == "np.take" and len(args) == 2 and not kwargs:
        # np.take(a, idx) is a[idx] for a flat array
        base, idx = a(0), a(1)
        if isinstance(base, Rat) and base.is_array() and isinstance(idx, (Rat, Vec)):
            return anf.opaque("take", base, R(idx), array=True) if (isinstance(idx, Vec) or R(idx).is_array()) else anf.opaque("at", base, R(idx), array=False)
    if name == "np.flatnonzero" and len(args) == 1:
        return _opaque_call(fr, "np.argwhere", args, kwargs)          # the positions where the argument is true, as a flat vector (np.argwhere(..).flatten())
    return _opaque_call(fr, name, args, kwargs)


_integer_valued = anf.integer_valued


def _sum_items(fr: Frame, v: Vec) -> Rat:
    acc = Rat.const(0)
    for c in v.items:
        r = fr.ev.to_rat(c)
        if r.is_array():
            r = anf.f_sum(r, fr.ev.length_of(c))
        acc = acc.add(r)
    return acc
