"""kverif -- repository-specific static analysis for mariolpantunes/knee (kneeliverse).

Nothing in this package imports or executes ``kneeliverse``.  Every verdict is
computed from the source text of the repository (``ast``), plus the symbol
tables / signatures of the *installed dependencies* the package refers to.
"""

import os

REPO_ENV = "KVERIF_REPO"
DEFAULT_REPO = "/repo"
VERIF_ROOT = os.path.dirname(os.path.dirname(os.path.abspath(__file__)))


def repo_root() -> str:
    return os.environ.get(REPO_ENV, DEFAULT_REPO)


class AnalysisError(Exception):
    """The analyser cannot give a verdict (anchor gone, shape not recognised).

    Mapped to exit code 2 -- never to a violation, never to a pass.
    """
