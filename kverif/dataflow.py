"""Dataflow over the CFG: name events, reaching definitions, definite
assignment (E2)."""

from __future__ import annotations

import ast
from typing import Dict, FrozenSet, List, Optional, Set, Tuple

from .cfg import CFG, Node
from .model import SCOPE_NODES, Module, Scope


# --------------------------------------------------------------------------
# name events of one CFG node, in evaluation order
# --------------------------------------------------------------------------

class _Events(ast.NodeVisitor):
    """Collects ('use'|'def', name, node) for names local to `fscope`.

    Nested lambdas / comprehensions are entered: a name they load that is not
    bound in the nested scope is a use of the enclosing function's local."""

    def __init__(self, module: Module, fscope: Scope):
        self.m = module
        self.fscope = fscope
        self.ev: List[Tuple[str, str, ast.AST]] = []

    def _is_local(self, name_node: ast.Name) -> bool:
        sc = self.m.node_scope.get(id(name_node))
        if sc is None:
            return False
        r = sc.lookup(name_node.id)
        return r is not None and r[1] is self.fscope

    def visit_Name(self, node):
        if not self._is_local(node):
            return
        if isinstance(node.ctx, ast.Load):
            self.ev.append(("use", node.id, node))
        elif isinstance(node.ctx, ast.Store):
            self.ev.append(("def", node.id, node))
        elif isinstance(node.ctx, ast.Del):
            self.ev.append(("del", node.id, node))

    def visit_FunctionDef(self, node):
        # a nested def binds its name; its body runs later (uses are not events here)
        for d in node.decorator_list:
            self.visit(d)
        self.ev.append(("def", node.name, node))

    def visit_ClassDef(self, node):
        self.ev.append(("def", node.name, node))

    def visit_Assign(self, node):
        self.visit(node.value)
        for t in node.targets:
            self.visit(t)

    def visit_AugAssign(self, node):
        # target is read, then value, then written
        if isinstance(node.target, ast.Name):
            if self._is_local_store(node.target):
                self.ev.append(("use", node.target.id, node.target))
            self.visit(node.value)
            if self._is_local_store(node.target):
                self.ev.append(("def", node.target.id, node.target))
        else:
            self.visit(node.target)
            self.visit(node.value)

    def _is_local_store(self, name_node):
        sc = self.m.node_scope.get(id(name_node))
        r = sc.lookup(name_node.id) if sc else None
        return r is not None and r[1] is self.fscope

    def visit_AnnAssign(self, node):
        if node.value is not None:
            self.visit(node.value)
            self.visit(node.target)

    def visit_NamedExpr(self, node):
        self.visit(node.value)
        self.visit(node.target)

    def visit_Import(self, node):
        for a in node.names:
            nm = a.asname or a.name.split(".")[0]
            self.ev.append(("def", nm, node))

    def visit_ImportFrom(self, node):
        for a in node.names:
            self.ev.append(("def", a.asname or a.name, node))

    def visit_With(self, node):
        for it in node.items:
            self.visit(it.context_expr)
            if it.optional_vars is not None:
                self.visit(it.optional_vars)


def node_events(module: Module, fscope: Scope, n: Node, edge_label=None) -> List[Tuple[str, str, ast.AST]]:
    """Events of a CFG node.  For a `for` header the target definition only
    happens on the 'iter' edge."""
    if n.ast is None:
        return []
    ev = _Events(module, fscope)
    if n.kind == "for":
        ev.visit(n.ast.iter)
        if edge_label == "iter":
            ev.visit(n.ast.target)
        return ev.ev
    if n.kind in ("test",):
        ev.visit(n.ast)
        return ev.ev
    if n.kind in ("return", "raise"):
        for c in ast.iter_child_nodes(n.ast):
            ev.visit(c)
        return ev.ev
    if n.kind == "stmt" and n.label == "with":
        ev.visit_With(n.ast)
        return ev.ev
    ev.visit(n.ast)
    return ev.ev


# --------------------------------------------------------------------------
# definite assignment (must analysis)
# --------------------------------------------------------------------------

class DefiniteAssignment:
    """For every use of a function-local name, is the name assigned on every
    path from the entry that reaches the use?"""

    def __init__(self, module: Module, func_node, cfg: Optional[CFG] = None):
        self.m = module
        self.func = func_node
        self.scope = module.scopes[id(func_node)]
        self.cfg = cfg or CFG(func_node)
        self.params: Set[str] = set(self.scope.params)
        a = func_node.args
        if a.vararg:
            self.params.add(a.vararg.arg)
        if a.kwarg:
            self.params.add(a.kwarg.arg)
        self.unassigned_uses: List[Tuple[str, ast.AST, Node]] = []
        self._run()

    def _transfer(self, n: Node, state: FrozenSet[str], label, report: bool) -> FrozenSet[str]:
        cur = set(state)
        for kind, name, node in node_events(self.m, self.scope, n, label):
            if kind == "use":
                if report and name not in cur:
                    self.unassigned_uses.append((name, node, n))
            elif kind == "def":
                cur.add(name)
            elif kind == "del":
                cur.discard(name)
        return frozenset(cur)

    def _run(self):
        cfg = self.cfg
        ALL = None  # top element
        inn: Dict[int, Optional[FrozenSet[str]]] = {n.id: ALL for n in cfg.nodes}
        inn[cfg.entry.id] = frozenset(self.params)
        order = cfg.rpo()
        # out state per (node, label)
        changed = True
        outs: Dict[Tuple[int, object], FrozenSet[str]] = {}
        it = 0
        while changed:
            changed = False
            it += 1
            for nid in order:
                n = cfg.nodes[nid]
                if nid != cfg.entry.id:
                    acc = ALL
                    for (p, lab) in cfg.pred[nid]:
                        o = outs.get((p, lab))
                        if o is None:
                            continue
                        acc = o if acc is ALL else (acc & o)
                    if acc is ALL:
                        continue
                    if inn[nid] is ALL or acc != inn[nid]:
                        inn[nid] = acc
                        changed = True
                state = inn[nid]
                if state is ALL:
                    continue
                labels = {lab for (_s, lab) in cfg.succ[nid]} or {None}
                for lab in labels:
                    o = self._transfer(n, state, lab, False)
                    if outs.get((nid, lab)) != o:
                        outs[(nid, lab)] = o
                        changed = True
            if it > 200:
                break
        self.inn = inn
        seen = set()
        for nid in order:
            n = cfg.nodes[nid]
            if inn[nid] is ALL:
                continue
            labels = {lab for (_s, lab) in cfg.succ[nid]} or {None}
            # report once per node (uses are label independent except `for` targets)
            before = len(self.unassigned_uses)
            self._transfer(n, inn[nid], sorted(labels, key=str)[0], True)
            # de-duplicate
            uniq = []
            for (name, node, nn) in self.unassigned_uses[before:]:
                if id(node) not in seen:
                    seen.add(id(node))
                    uniq.append((name, node, nn))
            self.unassigned_uses[before:] = uniq


# --------------------------------------------------------------------------
# reaching definitions (may analysis)
# --------------------------------------------------------------------------

class ReachingDefs:
    """Definitions are (name, def AST node).  Parameters are ('<param>', name)."""

    def __init__(self, module: Module, func_node, cfg: Optional[CFG] = None):
        self.m = module
        self.func = func_node
        self.scope = module.scopes[id(func_node)]
        self.cfg = cfg or CFG(func_node)
        self.def_nodes: Dict[int, ast.AST] = {}
        self.stmt_of_def: Dict[int, Node] = {}
        self.use_defs: Dict[int, Set[int]] = {}     # id(use Name node) -> set of def ids
        self._run()

    PARAM = -1

    def _run(self):
        cfg = self.cfg
        params = list(self.scope.params)
        a = self.func.args
        if a.vararg:
            params.append(a.vararg.arg)
        if a.kwarg:
            params.append(a.kwarg.arg)
        init = frozenset((p, self.PARAM) for p in params)
        inn: Dict[int, FrozenSet] = {n.id: frozenset() for n in cfg.nodes}
        inn[cfg.entry.id] = init
        outs: Dict[Tuple[int, object], FrozenSet] = {}
        order = cfg.rpo()
        changed = True
        while changed:
            changed = False
            for nid in order:
                n = cfg.nodes[nid]
                if nid != cfg.entry.id:
                    acc = set()
                    for (p, lab) in cfg.pred[nid]:
                        acc |= outs.get((p, lab), frozenset())
                    acc = frozenset(acc)
                    if acc != inn[nid]:
                        inn[nid] = acc
                        changed = True
                labels = {lab for (_s, lab) in cfg.succ[nid]} or {None}
                for lab in labels:
                    o = self._transfer(n, inn[nid], lab, False)
                    if outs.get((nid, lab)) != o:
                        outs[(nid, lab)] = o
                        changed = True
        self.inn = inn
        for nid in order:
            n = cfg.nodes[nid]
            labels = {lab for (_s, lab) in cfg.succ[nid]} or {None}
            for lab in labels:
                self._transfer(n, inn[nid], lab, True)

    def _transfer(self, n: Node, state: FrozenSet, label, record: bool) -> FrozenSet:
        cur = set(state)
        for kind, name, node in node_events(self.m, self.scope, n, label):
            if kind == "use":
                if record:
                    self.use_defs.setdefault(id(node), set()).update(d for (v, d) in cur if v == name)
            elif kind == "def":
                cur = {(v, d) for (v, d) in cur if v != name}
                cur.add((name, id(node)))
                self.def_nodes[id(node)] = node
                self.stmt_of_def[id(node)] = n
            elif kind == "del":
                cur = {(v, d) for (v, d) in cur if v != name}
        return frozenset(cur)

    def defs_of_use(self, name_node: ast.Name):
        """List of defining statements (CFG nodes) reaching this use, with None
        standing for 'the parameter value'."""
        out = []
        for d in self.use_defs.get(id(name_node), ()):
            if d == self.PARAM:
                out.append(None)
            else:
                out.append((self.def_nodes[d], self.stmt_of_def[d]))
        return out
